// Package pgw is an independent PostgreSQL v3 wire codec for the harness: it
// encodes frontend messages and strictly decodes backend messages into
// structural facts (it shares no code with the library under test).
package pgw

import (
	"crypto/sha1"
	"encoding/binary"
	"encoding/hex"
	"fmt"
)

// ---------- frontend encoding ----------

func be32(v uint32) []byte { b := make([]byte, 4); binary.BigEndian.PutUint32(b, v); return b }
func be16(v uint16) []byte { b := make([]byte, 2); binary.BigEndian.PutUint16(b, v); return b }

const (
	Version30     = 196608
	VersionCancel = 80877102
	VersionSSL    = 80877103
	VersionGSS    = 80877104
)

// Untyped builds a length-prefixed message without type byte.
func Untyped(body []byte) []byte {
	return append(be32(uint32(len(body)+4)), body...)
}

// Typed builds a typed message.
func Typed(t byte, body []byte) []byte {
	out := []byte{t}
	out = append(out, be32(uint32(len(body)+4))...)
	return append(out, body...)
}

// TypedDeclared builds a typed message header declaring an arbitrary length
// (the raw 32-bit length field), followed by body.
func TypedDeclared(t byte, declared uint32, body []byte) []byte {
	out := []byte{t}
	out = append(out, be32(declared)...)
	return append(out, body...)
}

func cstr(s string) []byte { return append([]byte(s), 0) }

// Startup builds a startup packet. If terminator is false the final empty key
// is omitted.
func Startup(version uint32, kvs [][2]string, terminator bool) []byte {
	body := be32(version)
	for _, kv := range kvs {
		body = append(body, cstr(kv[0])...)
		body = append(body, cstr(kv[1])...)
	}
	if terminator {
		body = append(body, 0)
	}
	return Untyped(body)
}

func SSLRequest() []byte { return Untyped(be32(VersionSSL)) }
func Cancel(pid, key uint32) []byte {
	return Untyped(append(append(be32(VersionCancel), be32(pid)...), be32(key)...))
}

func Query(text string) []byte  { return Typed('Q', cstr(text)) }
func Password(pw string) []byte { return Typed('p', cstr(pw)) }

func Parse(name, query string, oids []uint32) []byte {
	body := append(cstr(name), cstr(query)...)
	body = append(body, be16(uint16(len(oids)))...)
	for _, o := range oids {
		body = append(body, be32(o)...)
	}
	return Typed('P', body)
}

// Bind: params[i] == nil means SQL NULL.
func Bind(portal, stmt string, pfmt []int16, params [][]byte, rfmt []int16) []byte {
	return Typed('B', BindBody(portal, stmt, pfmt, params, rfmt))
}

func BindBody(portal, stmt string, pfmt []int16, params [][]byte, rfmt []int16) []byte {
	body := append(cstr(portal), cstr(stmt)...)
	body = append(body, be16(uint16(len(pfmt)))...)
	for _, f := range pfmt {
		body = append(body, be16(uint16(f))...)
	}
	body = append(body, be16(uint16(len(params)))...)
	for _, p := range params {
		if p == nil {
			body = append(body, be32(0xFFFFFFFF)...)
			continue
		}
		body = append(body, be32(uint32(len(p)))...)
		body = append(body, p...)
	}
	body = append(body, be16(uint16(len(rfmt)))...)
	for _, f := range rfmt {
		body = append(body, be16(uint16(f))...)
	}
	return body
}

func Describe(kind byte, name string) []byte { return Typed('D', append([]byte{kind}, cstr(name)...)) }
func Execute(portal string, max uint32) []byte {
	return Typed('E', append(cstr(portal), be32(max)...))
}
func Close(kind byte, name string) []byte { return Typed('C', append([]byte{kind}, cstr(name)...)) }
func Flush() []byte                       { return Typed('H', nil) }
func Sync() []byte                        { return Typed('S', nil) }
func Terminate() []byte                   { return Typed('X', nil) }
func CopyData(b []byte) []byte            { return Typed('d', b) }
func CopyDone() []byte                    { return Typed('c', nil) }
func CopyFail(msg string) []byte          { return Typed('f', cstr(msg)) }

// ---------- digests ----------

// Dig is the abstract name of a byte string: short printable strings are kept
// readable, everything else is hashed.
func Dig(b []byte) string {
	printable := len(b) <= 24
	if printable {
		for _, c := range b {
			if c < 0x20 || c > 0x7e || c == '"' || c == '\\' {
				printable = false
				break
			}
		}
	}
	if printable {
		return "s:" + string(b)
	}
	h := sha1.Sum(b)
	return fmt.Sprintf("h:%s:%d", hex.EncodeToString(h[:6]), len(b))
}

// ---------- backend decoding ----------

// Msg is one framed backend message.
type Msg struct {
	Type byte
	Body []byte
	End  int // offset in the stream just after this message
}

// Frame splits a server byte stream into complete frames. rest is what
// remains (an incomplete frame or nothing). bad is set when a header is not
// a plausible frame (length < 4).
func Frame(stream []byte) (msgs []Msg, rest []byte, bad bool) {
	off := 0
	for {
		if len(stream)-off < 5 {
			return msgs, stream[off:], false
		}
		l := int(binary.BigEndian.Uint32(stream[off+1 : off+5]))
		if l < 4 {
			return msgs, stream[off:], true
		}
		if len(stream)-off < 1+l {
			return msgs, stream[off:], false
		}
		msgs = append(msgs, Msg{Type: stream[off], Body: stream[off+5 : off+1+l], End: off + 1 + l})
		off += 1 + l
	}
}

type M = map[string]any

type cur struct {
	b  []byte
	ok bool
}

func (c *cur) u8() byte {
	if len(c.b) < 1 {
		c.ok = false
		return 0
	}
	v := c.b[0]
	c.b = c.b[1:]
	return v
}
func (c *cur) i16() int {
	if len(c.b) < 2 {
		c.ok = false
		c.b = nil
		return 0
	}
	v := int(int16(binary.BigEndian.Uint16(c.b)))
	c.b = c.b[2:]
	return v
}
func (c *cur) u16() int {
	if len(c.b) < 2 {
		c.ok = false
		c.b = nil
		return 0
	}
	v := int(binary.BigEndian.Uint16(c.b))
	c.b = c.b[2:]
	return v
}
func (c *cur) i32() int {
	if len(c.b) < 4 {
		c.ok = false
		c.b = nil
		return 0
	}
	v := int(int32(binary.BigEndian.Uint32(c.b)))
	c.b = c.b[4:]
	return v
}
func (c *cur) str() string {
	for i, x := range c.b {
		if x == 0 {
			s := string(c.b[:i])
			c.b = c.b[i+1:]
			return s
		}
	}
	c.ok = false
	c.b = nil
	return ""
}
func (c *cur) take(n int) []byte {
	if n < 0 || len(c.b) < n {
		c.ok = false
		c.b = nil
		return nil
	}
	v := c.b[:n]
	c.b = c.b[n:]
	return v
}

// ErrFieldNames maps ErrorResponse field codes to record keys.
var ErrFieldNames = map[byte]string{'S': "sev", 'V': "sevv", 'C': "code", 'M': "msg", 'D': "detail", 'H': "hint",
	'F': "file", 'L': "line", 'R': "fn", 'n': "cons", 'P': "pos", 'p': "ipos", 'q': "iquery", 'W': "where",
	's': "schema", 't': "table", 'c': "column", 'd': "dtype"}

// Decode parses one backend message under its exact grammar and reports the
// structural facts. "wf" is true iff the body parses exactly (declared counts
// match, strings terminated, nothing trailing, known type).
func Decode(m Msg) M {
	c := &cur{b: m.Body, ok: true}
	r := M{"t": string([]byte{m.Type})}
	decl, items := -1, -1 // declared count / items actually present (when the type has a count)
	known := true
	switch m.Type {
	case 'R':
		r["code"] = c.i32()
	case 'S':
		r["key"] = c.str()
		r["val"] = c.str()
	case 'Z':
		st := c.u8()
		r["st"] = string([]byte{st})
		if st != 'I' && st != 'T' && st != 'E' {
			c.ok = false
		}
	case 'T':
		n := c.u16() // counts are unsigned 16-bit quantities
		r["n"] = n
		names := []any{}
		oids := []any{}
		fmts := []any{}
		tables := []any{}
		attrs := []any{}
		for i := 0; i < n && c.ok; i++ {
			name := c.str()
			tbl := c.i32()
			att := c.i16()
			if c.ok {
				tables = append(tables, tbl)
				attrs = append(attrs, att)
			}
			oid := c.i32()
			c.i16()
			c.i32()
			f := c.i16()
			if c.ok {
				names = append(names, name)
				oids = append(oids, oid)
				fmts = append(fmts, f)
			}
		}
		if n < 0 {
			c.ok = false
		}
		r["names"] = names
		r["oids"] = oids
		r["fmts"] = fmts
		r["tables"] = tables
		r["attrs"] = attrs
		decl, items = n, len(names)
	case 'D':
		n := c.u16()
		r["n"] = n
		cells := []any{}
		raws := [][]byte{}
		for i := 0; i < n && c.ok; i++ {
			l := c.i32()
			if !c.ok {
				break
			}
			if l == -1 {
				cells = append(cells, M{"null": true})
				raws = append(raws, nil)
				continue
			}
			v := c.take(l)
			if !c.ok {
				break
			}
			cells = append(cells, M{"null": false, "len": l, "dig": Dig(v)})
			raws = append(raws, append([]byte{}, v...))
		}
		if n < 0 {
			c.ok = false
		}
		r["cells"] = cells
		r["_raw"] = raws
		decl, items = n, len(cells)
	case 'C':
		r["tag"] = c.str()
	case 'I', '1', '2', '3', 'n', 's', 'c':
		// empty body
	case 'E', 'N':
		fields := []any{}
		seen := map[byte]bool{}
		dup := false
		terminated := false
		for c.ok {
			code := c.u8()
			if !c.ok {
				break
			}
			if code == 0 {
				terminated = true
				break
			}
			s := c.str()
			if !c.ok {
				break
			}
			if seen[code] {
				dup = true
			}
			seen[code] = true
			fields = append(fields, []any{string([]byte{code}), s})
			if name, has := ErrFieldNames[code]; has {
				if _, already := r[name]; !already {
					r[name] = s
				}
			} else {
				c.ok = false // unknown field code
			}
		}
		if !terminated {
			c.ok = false
		}
		r["fields"] = fields
		r["dup"] = dup
		r["term"] = terminated
		r["mand"] = seen['S'] && seen['C'] && seen['M']
	case 't':
		n := c.u16()
		r["n"] = n
		oids := []any{}
		for i := 0; i < n && c.ok; i++ {
			o := c.i32()
			if c.ok {
				oids = append(oids, o)
			}
		}
		if n < 0 {
			c.ok = false
		}
		r["oids"] = oids
		decl, items = n, len(oids)
	case 'G', 'H', 'W':
		r["fmt"] = int(c.u8())
		n := c.u16()
		r["n"] = n
		fmts := []any{}
		for i := 0; i < n && c.ok; i++ {
			f := c.i16()
			if c.ok {
				fmts = append(fmts, f)
			}
		}
		if n < 0 {
			c.ok = false
		}
		r["fmts"] = fmts
		decl, items = n, len(fmts)
	case 'K':
		c.i32()
		c.i32()
	case 'd':
		c.b = nil
	default:
		c.ok = false
		known = false
		r["unknown"] = true
	}
	// structural facts for the grammar check done in TLA+ (PgOps.GrammarOK)
	r["known"] = known
	r["decl"] = decl
	r["items"] = items
	r["parsed"] = c.ok
	r["trail"] = len(c.b)
	trailing := len(c.b)
	r["wf"] = c.ok && trailing == 0
	if trailing != 0 {
		r["trailing"] = trailing
	}
	return r
}
