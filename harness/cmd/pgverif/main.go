// pgverif: conformance harness between the TLA+ specification of psql-wire
// and the real implementation.
package main

import (
	"bufio"
	"encoding/json"
	"flag"
	"fmt"
	"math/rand"
	"os"
	"strconv"
	"strings"
	"time"

	"verif/harness/run"
)

func die(format string, a ...any) {
	fmt.Fprintf(os.Stderr, "pgverif: "+format+"\n", a...)
	os.Exit(3) // distinct from the exit status of a Go panic (2): the orchestrator must not take it for a crash of the server
}

func main() {
	if len(os.Args) < 2 {
		die("usage: pgverif <play|gen|...> [flags]")
	}
	cmd, args := os.Args[1], os.Args[2:]
	switch cmd {
	case "play":
		cmdPlay(args)
	case "gen":
		cmdGen(args)
	case "sched":
		cmdSched(args)
	case "copybin":
		cmdCopyBin(args)
	case "multi":
		cmdMulti(args)
	case "junk":
		cmdSimple(args, func(b run.M, rng *rand.Rand) []run.M {
			evs, err := run.PlayJunk(b, rng)
			if err != nil {
				die("junk: %v", err)
			}
			return evs
		})
	case "segplay":
		cmdSegPlay(args)
	case "reader":
		cmdSimple(args, func(b run.M, rng *rand.Rand) []run.M { return run.PlayReader(b, rng) })
	case "writer":
		cmdSimple(args, func(b run.M, rng *rand.Rand) []run.M { return run.PlayWriter(b) })
	default:
		if f, ok := extraCmds[cmd]; ok {
			f(args)
			return
		}
		die("unknown command %q", cmd)
	}
}

var extraCmds = map[string]func([]string){}

// eachBehaviour streams one JSON behaviour per line.
func eachBehaviour(path string, fn func(i int, b run.M)) int {
	f, err := os.Open(path)
	if err != nil {
		die("%v", err)
	}
	defer f.Close()
	sc := bufio.NewScanner(f)
	sc.Buffer(make([]byte, 1<<20), 1<<28)
	i := 0
	for sc.Scan() {
		if len(sc.Bytes()) == 0 {
			continue
		}
		var m run.M
		if err := json.Unmarshal(sc.Bytes(), &m); err != nil {
			die("bad behaviour line: %v", err)
		}
		fn(i, m)
		i++
	}
	return i
}

// readBehaviours reads one JSON behaviour per line.
func readBehaviours(path string) []run.M {
	f, err := os.Open(path)
	if err != nil {
		die("%v", err)
	}
	defer f.Close()
	var out []run.M
	sc := bufio.NewScanner(f)
	sc.Buffer(make([]byte, 1<<20), 1<<28)
	for sc.Scan() {
		if len(sc.Bytes()) == 0 {
			continue
		}
		var m run.M
		if err := json.Unmarshal(sc.Bytes(), &m); err != nil {
			die("bad behaviour line: %v", err)
		}
		out = append(out, m)
	}
	return out
}

type traceWriter struct {
	f     *os.File
	w     *bufio.Writer
	lines int
	idx   *os.File // index: one line per execution "<first line> <last line> <behaviour index>"
}

func newTraceWriter(path string) *traceWriter {
	f, err := os.Create(path)
	if err != nil {
		die("%v", err)
	}
	idx, err := os.Create(path + ".idx")
	if err != nil {
		die("%v", err)
	}
	return &traceWriter{f: f, w: bufio.NewWriterSize(f, 1<<20), idx: idx}
}

func (t *traceWriter) writeExec(evs []run.M, behIndex int) {
	first := t.lines + 1
	for _, e := range evs {
		b, err := json.Marshal(e)
		if err != nil {
			die("marshal: %v", err)
		}
		t.w.Write(b)
		t.w.WriteByte('\n')
		t.lines++
	}
	t.w.Flush() // a crash later on leaves every completed execution on disk
	fmt.Fprintf(t.idx, "%d %d %d\n", first, t.lines, behIndex)
}

func (t *traceWriter) close() {
	t.w.Flush()
	t.f.Close()
	t.idx.Close()
}

// cmdPlay: run behaviours against the real server, write the abstract trace.
func cmdPlay(args []string) {
	fs := flag.NewFlagSet("play", flag.ExitOnError)
	in := fs.String("in", "", "behaviours (ndjson)")
	out := fs.String("out", "trace.ndjson", "abstract trace (ndjson)")
	seed := fs.Int64("seed", 1, "seed for concretisation")
	progress := fs.String("progress", "", "file receiving the index of the behaviour being executed (crash attribution)")
	only := fs.Int("only", -1, "play only the behaviour with this index")
	proj := fs.String("proj", "", "projection (property id); empty = full records")
	seedIndex := fs.Int("seedindex", 0, "offset added to the behaviour index when seeding the concretiser (replay of one behaviour)")
	limits := fs.String("limits", "", "comma-separated concrete limits for symbolic configurations (0 = library default)")
	fs.Parse(args)
	if *limits != "" {
		run.SymLimits = nil
		for _, f := range strings.Split(*limits, ",") {
			n, _ := strconv.Atoi(f)
			run.SymLimits = append(run.SymLimits, n)
		}
	}
	tw := newTraceWriter(*out)
	var pf *os.File
	if *progress != "" {
		pf, _ = os.Create(*progress)
	}
	n := 0
	wedged := 0
	eachBehaviour(*in, func(i int, b run.M) {
		if *only >= 0 && i != *only {
			return
		}
		if wedged >= 5 {
			return // executions in which the server hangs wait for their timeouts: a few of them are enough for a verdict
		}
		if pf != nil {
			pf.Seek(0, 0)
			fmt.Fprintf(pf, "%-12d\n", i)
		}
		rng := rand.New(rand.NewSource(*seed*1000003 + int64(i+*seedIndex)))
		evs, err := run.Play(b, rng, run.Projections[*proj])
		if err != nil {
			die("behaviour %d: %v", i, err)
		}
		for _, e := range evs {
			if e["k"] == "wedged" {
				wedged++
				break
			}
		}
		tw.writeExec(evs, i)
		n++
	})
	tw.close()
	fmt.Printf("played %d behaviours, %d trace lines\n", n, tw.lines)
}

// cmdSched: replay TLC-generated schedules of the server lifecycle on real goroutines.
func cmdSched(args []string) {
	fs := flag.NewFlagSet("sched", flag.ExitOnError)
	in := fs.String("in", "", "schedules (ndjson)")
	out := fs.String("out", "trace.ndjson", "abstract trace (ndjson)")
	fs.Int64("seed", 1, "unused")
	progress := fs.String("progress", "", "progress file")
	seedIndex := fs.Int("seedindex", 0, "offset added to the schedule index (replay of one schedule)")
	fs.String("proj", "", "unused")
	fs.Parse(args)
	behs := readBehaviours(*in)
	tw := newTraceWriter(*out)
	var pf *os.File
	if *progress != "" {
		pf, _ = os.Create(*progress)
	}
	bad := 0
	for i, b := range behs {
		if pf != nil {
			pf.Seek(0, 0)
			fmt.Fprintf(pf, "%-12d\n", i)
		}
		b["_i"] = i + *seedIndex
		evs, err := run.PlaySched(b)
		if err != nil {
			die("schedule %d: %v", i, err)
		}
		tw.writeExec(evs, i)
		// executions that went wrong are slow (timeouts): a few of them are enough for a verdict
		for _, e := range evs {
			if e["k"] == "stuck" || e["k"] == "panic" || (e["k"] == "final" && !(e["allret"] == true && e["served"] == true && e["wire"] != false && e["late"] != false)) {
				bad++
				break
			}
		}
		if bad >= 3 {
			fmt.Printf("stopping after %d troubled schedules\n", bad)
			break
		}
	}
	tw.close()
	fmt.Printf("replayed %d schedules, %d trace lines\n", len(behs), tw.lines)
}

// cmdCopyBin: binary COPY scenarios through the real row reader.
func cmdCopyBin(args []string) {
	fs := flag.NewFlagSet("copybin", flag.ExitOnError)
	in := fs.String("in", "", "scenarios (ndjson)")
	out := fs.String("out", "trace.ndjson", "abstract trace (ndjson)")
	seed := fs.Int64("seed", 1, "seed")
	progress := fs.String("progress", "", "progress file")
	seedIndex := fs.Int("seedindex", 0, "seed index offset")
	fs.String("proj", "", "unused")
	fs.Parse(args)
	behs := readBehaviours(*in)
	tw := newTraceWriter(*out)
	var pf *os.File
	if *progress != "" {
		pf, _ = os.Create(*progress)
	}
	for i, b := range behs {
		if pf != nil {
			pf.Seek(0, 0)
			fmt.Fprintf(pf, "%-12d\n", i)
		}
		rng := rand.New(rand.NewSource(*seed*1000003 + int64(i+*seedIndex)))
		b["_i"] = i + *seedIndex
		evs, err := run.PlayCopyBin(b, rng)
		if err != nil {
			die("scenario %d: %v", i, err)
		}
		tw.writeExec(evs, i)
	}
	tw.close()
	fmt.Printf("played %d scenarios, %d trace lines\n", len(behs), tw.lines)
}

// cmdSimple: drivers of the public API of a lower layer (no server involved).
func cmdSimple(args []string, play func(run.M, *rand.Rand) []run.M) {
	fs := flag.NewFlagSet("simple", flag.ExitOnError)
	in := fs.String("in", "", "behaviours (ndjson)")
	out := fs.String("out", "trace.ndjson", "abstract trace (ndjson)")
	seed := fs.Int64("seed", 1, "seed")
	progress := fs.String("progress", "", "progress file")
	seedIndex := fs.Int("seedindex", 0, "seed index offset")
	fs.String("proj", "", "unused")
	fs.Parse(args)
	behs := readBehaviours(*in)
	tw := newTraceWriter(*out)
	var pf *os.File
	if *progress != "" {
		pf, _ = os.Create(*progress)
	}
	for i, b := range behs {
		if pf != nil {
			pf.Seek(0, 0)
			fmt.Fprintf(pf, "%-12d\n", i)
		}
		rng := rand.New(rand.NewSource(*seed*1000003 + int64(i+*seedIndex)))
		tw.writeExec(play(b, rng), i)
	}
	tw.close()
	fmt.Printf("played %d behaviours, %d trace lines\n", len(behs), tw.lines)
}

// cmdSegPlay: every behaviour is executed under five segmentations of the same
// byte stream; each execution is validated like any other, and in addition
// carries the digest of its transcript, which must not depend on the segmentation.
func cmdSegPlay(args []string) {
	fs := flag.NewFlagSet("segplay", flag.ExitOnError)
	in := fs.String("in", "", "behaviours (ndjson)")
	out := fs.String("out", "trace.ndjson", "abstract trace (ndjson)")
	seed := fs.Int64("seed", 1, "seed")
	progress := fs.String("progress", "", "progress file")
	seedIndex := fs.Int("seedindex", 0, "seed index offset")
	proj := fs.String("proj", "", "projection")
	fs.Parse(args)
	tw := newTraceWriter(*out)
	var pf *os.File
	if *progress != "" {
		pf, _ = os.Create(*progress)
	}
	n := 0
	eachBehaviour(*in, func(i int, b run.M) {
		if pf != nil {
			pf.Seek(0, 0)
			fmt.Fprintf(pf, "%-12d\n", i)
		}
		raw, _ := json.Marshal(b)
		var all []run.M
		var input0 []uint64
		for mode := 0; mode <= 4; mode++ {
			var bb run.M
			json.Unmarshal(raw, &bb) //nolint: a fresh copy: concretisation enriches the behaviour
			rng := rand.New(rand.NewSource(*seed*1000003 + int64(i+*seedIndex)))
			evs, err := run.PlayMode(bb, rng, run.Projections[*proj], mode)
			if err != nil {
				die("behaviour %d: %v", i, err)
			}
			samePrefix := func(a, b []uint64) bool { // the message-by-message run stops sending once the server has closed
				if len(a) > len(b) {
					return false
				}
				for k := range a {
					if a[k] != b[k] {
						return false
					}
				}
				return true
			}
			if mode == 0 {
				input0 = append([]uint64{}, run.LastInputs...)
			} else if !samePrefix(input0, run.LastInputs) {
				// not a property of the library: the harness sent different bytes under this segmentation
				die("behaviour %d: segmentation %d was concretised to a different byte stream than the message-by-message run", i, mode)
			}
			if mode > 0 {
				// the session came up message by message but not under this segmentation: that IS the violation
				for _, e := range evs {
					if e["k"] == "dead" {
						e["k"] = "segdead"
					}
				}
			}
			evs = append(evs, run.M{"k": "segrun", "stream": i, "first": mode == 0, "mode": mode, "dig": run.TranscriptDigest(evs)})
			all = append(all, evs...)
		}
		tw.writeExec(all, i)
		n++
	})
	tw.close()
	fmt.Printf("played %d behaviours x 5 segmentations, %d trace lines\n", n, tw.lines)
}

// cmdMulti: concurrent sessions on one server under TLC-generated interleavings;
// one execution per connection in the trace.
func cmdMulti(args []string) {
	fs := flag.NewFlagSet("multi", flag.ExitOnError)
	in := fs.String("in", "", "schedules (ndjson)")
	out := fs.String("out", "trace.ndjson", "abstract trace (ndjson)")
	seed := fs.Int64("seed", 1, "seed")
	progress := fs.String("progress", "", "progress file")
	seedIndex := fs.Int("seedindex", 0, "seed index offset")
	proj := fs.String("proj", "", "projection")
	fs.Parse(args)
	tw := newTraceWriter(*out)
	var pf *os.File
	if *progress != "" {
		pf, _ = os.Create(*progress)
	}
	n := 0
	troubled := 0
	marked := false
	eachBehaviour(*in, func(i int, b run.M) {
		if pf != nil {
			pf.Seek(0, 0)
			fmt.Fprintf(pf, "%-12d\n", i)
		}
		if troubled >= 3 {
			// the run has degenerated (every step waits for its timeout): what was recorded so far is judged, and the
			// rest is recorded as not run - the check then ends without a verdict instead of passing on a fraction
			if !marked {
				tw.writeExec([]run.M{{"k": "cfg", "c": run.M{}}, {"k": "degenerated"}}, i)
				marked = true
			}
			return
		}
		rng := rand.New(rand.NewSource(*seed*1000003 + int64(i+*seedIndex)))
		b["_i"] = i + *seedIndex
		t0 := time.Now()
		var traces [][]run.M
		var err error
		done := make(chan struct{})
		go func() {
			defer close(done)
			traces, err = run.PlayMulti(b, rng, run.Projections[*proj])
		}()
		select {
		case <-done:
		case <-time.After(90 * time.Second):
			// the execution never ends (a connection that is not served any more): recorded as such, and
			// nothing further can be run in this process
			tw.writeExec([]run.M{{"k": "cfg", "c": run.M{}}, {"k": "wedged"}}, i)
			n++
			troubled = 3
			return
		}
		if time.Since(t0) > 8*time.Second {
			troubled++
		}
		if err != nil {
			die("schedule %d: %v", i, err)
		}
		var all []run.M
		for _, t := range traces {
			all = append(all, t...)
		}
		tw.writeExec(all, i)
		n++
	})
	tw.close()
	fmt.Printf("played %d concurrent schedules, %d trace lines\n", n, tw.lines)
}

// decode: raw connection recordings (verifConn) -> abstract PgFlow trace.
func init() {
	extraCmds["decode"] = func(args []string) {
		fs := flag.NewFlagSet("decode", flag.ExitOnError)
		dir := fs.String("dir", "", "directory with conn-*.ndjson recordings")
		out := fs.String("out", "trace.ndjson", "trace file")
		fs.Parse(args) //nolint
		evs, n, err := run.DecodeFlowDir(*dir)
		if err != nil {
			die("decode: %v", err)
		}
		if err := run.WriteFlowTrace(evs, *out); err != nil {
			die("decode: %v", err)
		}
		fmt.Printf("decoded %d connections, %d events\n", n, len(evs))
	}
}
