package main

import (
	"bufio"
	"encoding/hex"
	"encoding/json"
	"flag"
	"fmt"
	"math/rand"
	"os"
	"strings"

	"verif/harness/run"
)

type M = run.M

// gen: random behaviours in the vocabulary of the specification, with richer
// concrete data (longer histories, more names, longer programs) than the
// bounded TLC models produce.
func cmdGen(args []string) {
	fs := flag.NewFlagSet("gen", flag.ExitOnError)
	prop := fs.String("prop", "C05", "property family")
	n := fs.Int("n", 100, "number of behaviours")
	seed := fs.Int64("seed", 1, "seed")
	out := fs.String("out", "behaviours.ndjson", "output")
	odd := fs.Bool("odd", false, "also generate inputs outside the protocol's domain (judged for survival only)")
	fs.Parse(args)
	g := &gen{rng: rand.New(rand.NewSource(*seed)), odd: *odd}
	f, err := os.Create(*out)
	if err != nil {
		die("%v", err)
	}
	w := bufio.NewWriter(f)
	for i := 0; i < *n; i++ {
		g.id = 0
		var b M
		switch *prop {
		case "C05":
			b = g.behC05()
		case "C06":
			b = g.behC06()
		case "C07":
			b = g.behC07()
		case "C08":
			b = g.behC08()
		case "C17":
			b = g.behC17()
		case "C13":
			b = g.behC13()
		case "C01":
			b = g.behC01()
		case "C12":
			b = g.behC12()
		case "C19":
			b = g.behC19()
		case "C10":
			b = g.behC10()
		case "C20":
			b = g.behC20()
		case "C14":
			b = g.scnC14()
		case "C09":
			b = g.behC09()
		case "C03":
			b = g.behC03()
		case "C18":
			b = g.behC18()
		case "C11":
			b = g.behC11()
		case "C04J":
			b = M{"kind": g.pick("fresh", "session", "session", "mutate", "mutate", "bomb", "bomb", "copybin", "copybin", "helpers"), "i": i}
			if g.chance(0.01) {
				b["kind"] = "flood"
			}
		case "C04F":
			b = g.behC04F()
		default:
			if fn, ok := genFns[*prop]; ok {
				b = fn(g)
			} else {
				die("gen: no generator for %s", *prop)
			}
		}
		// time passes, now and then, between two messages of a session
		if steps, ok := b["steps"].([]any); ok && len(steps) > 2 && g.chance(0.3) {
			pos := 1 + g.rng.Intn(len(steps)-1)
			if prev := run.AsM(steps[pos-1]); !run.B(prev, "nowait") && !run.B(prev, "glue") {
				b["steps"] = append(steps[:pos:pos], append([]any{M{"k": "elapse"}}, steps[pos:]...)...)
			}
		}
		j, _ := json.Marshal(b)
		w.Write(j)
		w.WriteByte('\n')
	}
	w.Flush()
	f.Close()
	fmt.Printf("generated %d behaviours\n", *n)
}

var genFns = map[string]func(*gen) M{"C02": (*gen).behC02, "C10tls": (*gen).behC10tls}

// behC10tls: the size-limit sessions inside a TLS session.
func (g *gen) behC10tls() M {
	b := g.behC10()
	cfg := run.AsM(b["cfg"])
	steps := b["steps"].([]any)
	for _, sv := range steps {
		delete(run.AsM(sv), "nowait")
	}
	cfg["tls"] = "cert"
	b["steps"] = append([]any{send(M{"t": "SSLRequest", "stuffed": false}), M{"k": "tls"}}, steps...)
	return b
}

// behC02: client-chosen bytes that the server quotes back in its messages:
// unknown message types (every interesting byte value, at idle, in a batch and
// inside COPY), unknown Describe / Close targets.
func (g *gen) behC02() M {
	steps := []any{g.startupX("u")}
	if g.chance(0.15) {
		// a row that is given up after a value of tens of kilobytes has been written into it (the next value cannot
		// be encoded), then rows that are fine: nothing of the abandoned row reaches the client
		g.id++
		cols := []any{M{"name": "doc", "oid": 25}, M{"name": "n", "oid": 23}}
		prog := []any{
			M{"op": "row", "cells": []any{M{"c": "v", "big": true}, M{"c": "bad"}}},
			M{"op": "row", "cells": []any{M{"c": "v", "big": g.chance(0.5)}, M{"c": "v"}}},
			M{"op": "complete", "tag": "SELECT 1"}, M{"op": "ret", "r": "nil"}}
		st := M{"id": g.id, "cols": cols, "oids": []any{}, "prog": prog}
		if g.chance(0.5) {
			steps = append(steps, send(M{"t": "Q", "q": M{"id": g.id, "parse": "ok", "stmts": []any{st}}}))
		} else {
			steps = append(steps, send(M{"t": "P", "name": "", "q": M{"id": g.id, "parse": "ok", "stmts": []any{st}}, "noids": 0}),
				send(M{"t": "B", "portal": "", "stmt": "", "pfmt": []any{}, "params": []any{}, "rfmt": g.codeList(2)}),
				send(M{"t": "E", "portal": "", "max": 0}), send(M{"t": "S"}))
		}
	}
	n := 1 + g.rng.Intn(5)
	for i := 0; i < n; i++ {
		tyb := []int{0, 0, 1, 9, 10, 13, 27, 34, 37, 92, 127, 128, 159, 173, 255, 70, 97}[g.rng.Intn(17)]
		u := M{"t": "U", "tyb": tyb}
		switch g.rng.Intn(4) {
		case 0:
			steps = append(steps, send(u), send(M{"t": "S"}))
		case 1:
			steps = append(steps, send(M{"t": "P", "name": "", "q": g.trivialQ(), "noids": 0}), send(u), send(M{"t": "S"}))
		case 2:
			g.id++
			st := M{"id": g.id, "cols": g.cols(1), "oids": []any{}, "prog": []any{M{"op": "copyin", "fmt": 0}, M{"op": "copyread", "onerr": "ret"}, M{"op": "complete", "tag": "COPY"}, M{"op": "ret", "r": "nil"}}}
			steps = append(steps, send(M{"t": "Q", "q": M{"id": g.id, "parse": "ok", "stmts": []any{st}}}), send(u), send(M{"t": "c"}), send(M{"t": "S"}))
		default:
			steps = append(steps, send(M{"t": g.pick("D", "C"), "kind": g.pick("z", "x", "hi"), "name": g.pick("", "a")}), send(M{"t": "S"}))
		}
	}
	return M{"cfg": baseCfg(), "steps": steps}
}

type gen struct {
	rng *rand.Rand
	id  int
	odd bool // also inputs outside the protocol's domain
	big int  // bulky behaviours (megabytes of trace each) generated so far: a run generates a handful of them, however long it is
}

// bulky: may another bulky behaviour be generated (probability p, at most eight per run)?
func (g *gen) bulky(p float64) bool {
	if g.big >= 8 || !g.chance(p) {
		return false
	}
	g.big++
	return true
}

func (g *gen) pick(xs ...string) string { return xs[g.rng.Intn(len(xs))] }

// maxRows: the row limit of Execute. The library does not honour it (it never
// suspends a portal); the spec's DoExecute ignores it, so any value must give the same conversation.
func (g *gen) maxRows() int {
	return []int{0, 0, 0, 1, 2, 7, 1000, 2147483647, 4294967295}[g.rng.Intn(9)]
}
func (g *gen) chance(p float64) bool { return g.rng.Float64() < p }

func (g *gen) text(max int) string {
	const alpha = "abcdefghijklmnopqrstuvwxyz ABCDEFGHIJKLMNOPQRSTUVWXYZ0123456789_-.:,"
	n := 1 + g.rng.Intn(max)
	b := make([]byte, n)
	for i := range b {
		b[i] = alpha[g.rng.Intn(len(alpha))]
	}
	return string(b)
}

func baseCfg() M {
	return M{"auth": "none", "tls": "nil", "params": M{}, "version": "", "mw": []any{}, "term": "none", "limit": 65536}
}

// deadCtx: now and then the session's context has ended before the first command (a session time-out): the
// connection is served all the same, rows and COPY fail.
func (g *gen) deadCtx(cfg M) M {
	if g.chance(0.1) {
		cfg["ctx"] = "dead"
	}
	return cfg
}

func startup(user string) M {
	return M{"k": "send", "m": M{"t": "Startup", "term": true, "kvs": []any{M{"k": "user", "v": user}, M{"k": "database", "v": "db"}}}}
}

// wellKnownKV: a start-up parameter that client libraries really send (libpq's options / PGOPTIONS with
// complete and dangling arguments, replication, protocol extensions, run-time settings). To the server these are
// opaque pairs like any other.
func (g *gen) wellKnownKV() M {
	k := g.pick("options", "options", "options", "replication", "search_path", "DateStyle", "TimeZone", "extra_float_digits",
		"client_encoding", "application_name", "_pq_.ext", "IntervalStyle", "statement_timeout", "sslmode", "password", "fallback_application_name")
	v := g.pick("", "-c", "-c geqo=off", "-c geqo=off -c", "-cgeqo=off", "--search-path=x", "--", "-", "-c =", "-c user=other -c database=other",
		"-c server_version=0", "\\", "a\\ b", " ", "database", "true", "on", "UTF8", "ISO, MDY", "3", "0", "'", "\"", "=", "x=y")
	return M{"k": k, "v": v}
}

// startupX: the usual start-up packet, now and then carrying well-known parameters as well
func (g *gen) startupX(user string) M {
	st := startup(user)
	if g.chance(0.25) {
		m := st["m"].(M)
		kvs := m["kvs"].([]any)
		for i := 0; i < 1+g.rng.Intn(3); i++ {
			kvs = append(kvs, g.wellKnownKV())
		}
		m["kvs"] = kvs
	}
	return st
}

func send(m M) M { return M{"k": "send", "m": m} }

func (g *gen) simpleErr() M {
	if g.chance(0.15) {
		// the handler passes on an error it got from elsewhere (end of a stream, a closed connection, a
		// cancelled context), possibly wrapped: reported like any other
		e := M{"base": run.SentinelTexts[g.rng.Intn(len(run.SentinelTexts))], "layers": []any{}}
		if g.chance(0.5) {
			e["layers"] = []any{M{"d": "wrap", "v": "copy " + g.text(5)}}
		}
		return e
	}
	if g.chance(0.3) {
		// whatever severity the handler gives its error, a failure is reported as an ErrorResponse
		sevs := []string{"ERROR", "FATAL", "PANIC", "WARNING", "NOTICE", "DEBUG", "INFO", "LOG"}
		return M{"base": "boom " + g.text(8), "layers": []any{M{"d": "sev", "v": sevs[g.rng.Intn(len(sevs))]}}}
	}
	if g.chance(0.15) {
		return M{"base": "boom " + g.text(8), "layers": []any{M{"d": "code", "v": g.pick("08006", "08P01", "57P01", "57P03", "57014", "53300")}}}
	}
	return M{"base": "boom " + g.text(8), "layers": []any{}}
}

// cols returns n text columns.
func (g *gen) cols(n int) []any {
	out := []any{}
	for i := 0; i < n; i++ {
		out = append(out, M{"name": fmt.Sprintf("c%d", i+1), "oid": 25})
	}
	return out
}

func (g *gen) cell() M {
	switch g.rng.Intn(10) {
	case 0:
		return M{"c": "null", "nk": g.pick("nil", "ptr", "inv")}
	case 1:
		return M{"c": "empty"}
	default:
		return M{"c": "v", "val": "s:v" + g.text(10)}
	}
}

// row builds a row op of the given class for ncols columns.
func (g *gen) row(class string, ncols int) M {
	n := ncols
	switch class {
	case "short":
		n = ncols - 1
	case "long":
		n = ncols + 1 + g.rng.Intn(2)
	}
	if n < 0 {
		n = 0
	}
	cells := []any{}
	for i := 0; i < n; i++ {
		cells = append(cells, g.cell())
	}
	if class == "bad" && n > 0 {
		cells[g.rng.Intn(n)] = M{"c": "bad"}
	}
	return M{"op": "row", "cells": cells}
}

// prog builds a random DataWriter program.
func (g *gen) prog(ncols int, maxOps int) []any {
	ops := []any{}
	n := g.rng.Intn(maxOps + 1)
	for i := 0; i < n; i++ {
		switch g.rng.Intn(12) {
		case 0:
			if ncols > 0 {
				ops = append(ops, g.row("short", ncols))
			}
		case 1:
			ops = append(ops, g.row("long", ncols))
		case 2:
			if ncols > 0 {
				ops = append(ops, g.row("bad", ncols))
			}
		case 3:
			ops = append(ops, M{"op": "complete", "tag": "SELECT " + g.text(6)})
		case 4:
			if g.chance(0.3) {
				ops = append(ops, M{"op": "empty"})
			}
		default:
			ops = append(ops, g.row("ok", ncols))
		}
	}
	if g.chance(0.8) {
		ops = append(ops, M{"op": "complete", "tag": "SELECT " + g.text(6)})
	}
	if g.chance(0.15) {
		ops = append(ops, M{"op": "ret", "r": "err", "err": g.simpleErr()})
	} else {
		ops = append(ops, M{"op": "ret", "r": "nil"})
	}
	return ops
}

func (g *gen) stmt(maxOps int) M {
	g.id++
	ncols := g.rng.Intn(4)
	return M{"id": g.id, "cols": g.cols(ncols), "oids": []any{}, "prog": g.prog(ncols, maxOps)}
}

// script builds a query script: parser outcome and statements.
func (g *gen) script(maxStmts int, maxOps int) M {
	g.id++
	id := g.id
	switch g.rng.Intn(12) {
	case 0:
		return M{"id": id, "parse": "blank", "stmts": []any{}}
	case 1:
		return M{"id": id, "parse": "err", "perr": g.simpleErr(), "stmts": []any{}}
	case 2:
		return M{"id": id, "parse": "ok", "stmts": []any{}}
	}
	n := 1 + g.rng.Intn(maxStmts)
	stmts := []any{}
	for i := 0; i < n; i++ {
		stmts = append(stmts, g.stmt(maxOps))
	}
	return M{"id": id, "parse": "ok", "stmts": stmts}
}

func (g *gen) behC05() M {
	steps := []any{g.startupX("u")}
	n := 1 + g.rng.Intn(5)
	for i := 0; i < n; i++ {
		steps = append(steps, send(M{"t": "Q", "q": g.script(3, 6)}))
	}
	return M{"cfg": g.deadCtx(baseCfg()), "steps": steps}
}

// names: the unnamed one, short ones, two that differ only in letter case, two long ones that share their
// first 70 bytes (names are byte strings: no folding, no truncation)
var longName = "n" + strings.Repeat("x", 69)

func (g *gen) name() string {
	return g.pick("", "", "a", "a", "b", "s1", "A", longName+"-1", longName+"-2")
}

func (g *gen) behC06() M {
	steps := []any{g.startupX("u")}
	n := 1 + g.rng.Intn(30)
	// a closed name is unknown: referring to it afterwards is an error like any other
	for i := 0; i < n; i++ {
		var m M
		switch g.rng.Intn(14) {
		case 0, 1, 2:
			q := g.script(2, 3)
			if run.S(q, "parse") == "blank" && g.chance(0.5) {
				q = M{"id": q["id"], "parse": "ok", "stmts": []any{}}
			}
			if sts := run.L(q, "stmts"); len(sts) == 1 && g.chance(0.1) {
				// a statement function that panics when executed (only reachable through Execute, where the
				// library recovers)
				st := run.AsM(sts[0])
				prog := run.L(st, "prog")
				if len(prog) > 0 {
					st["prog"] = append(append([]any{}, prog[:len(prog)-1]...), M{"op": "panic"})
				}
			}
			if g.chance(0.25) {
				q["pad"] = 800 + g.rng.Intn(2500) // bulky query texts: names defined earlier must survive kilobytes of later traffic
			}
			m = M{"t": "P", "name": g.name(), "q": q, "noids": 0}
		case 3, 4:
			m = M{"t": "B", "portal": g.name(), "stmt": g.name(), "pfmt": []any{}, "params": []any{}, "rfmt": []any{}}
		case 5:
			m = M{"t": "D", "kind": g.pick("S", "P", "S", "P", "x", "z", "hi"), "name": g.name()}
		case 6, 7:
			m = M{"t": "E", "portal": g.name(), "max": g.maxRows()}
		case 8:
			m = M{"t": "C", "kind": g.pick("S", "P", "S", "P", "z", "x"), "name": g.name()}
		case 9:
			m = M{"t": "H"}
		case 10, 11:
			m = M{"t": "S"}
		case 12:
			m = M{"t": "Q", "q": g.script(2, 3)}
		case 13:
			switch g.rng.Intn(5) {
			case 4:
				// a name defined now is still known after kilobytes of other traffic
				nm := g.name()
				steps = append(steps, send(M{"t": "P", "name": nm, "q": g.trivialQ(), "noids": 0}))
				for k := 0; k < 3+g.rng.Intn(4); k++ {
					q := g.trivialQ()
					q["pad"] = 900 + g.rng.Intn(800)
					steps = append(steps, send(M{"t": "P", "name": "bulk", "q": q, "noids": 0}))
				}
				if g.chance(0.5) {
					m = M{"t": "B", "portal": nm, "stmt": nm, "pfmt": []any{}, "params": []any{}, "rfmt": []any{}}
				} else {
					m = M{"t": "D", "kind": "S", "name": nm}
				}
			case 0:
				m = M{"t": "U"}
			case 1:
				if g.chance(0.5) {
					// a portal whose statement function fails stays bound: executed again in the next cycle, the function
					// runs (and fails) again
					nm := g.name()
					g.id++
					fst := M{"id": g.id, "cols": []any{}, "oids": []any{}, "prog": []any{M{"op": "ret", "r": "err", "err": g.simpleErr()}}}
					steps = append(steps, send(M{"t": "P", "name": nm, "q": M{"id": g.id, "parse": "ok", "stmts": []any{fst}}, "noids": 0}),
						send(M{"t": "B", "portal": nm, "stmt": nm, "pfmt": []any{}, "params": []any{}, "rfmt": []any{}}),
						send(M{"t": "E", "portal": nm, "max": 0}), send(M{"t": "S"}))
					m = M{"t": g.pick("E", "E", "D"), "portal": nm, "max": 0, "kind": "P", "name": nm}
					break
				}
				m = M{"t": "Big", "ty": g.pick("Q", "P", "B", "E", "D"), "over": 1 + g.rng.Intn(100)}
			case 2:
				// define, close, refer: the reference is to an unknown name
				nm := g.name()
				if g.chance(0.5) {
					steps = append(steps, send(M{"t": "P", "name": nm, "q": g.trivialQ(), "noids": 0}), send(M{"t": "B", "portal": nm, "stmt": nm, "pfmt": []any{}, "params": []any{}, "rfmt": []any{}}),
						send(M{"t": "C", "kind": "P", "name": nm}))
					m = M{"t": g.pick("E", "D"), "portal": nm, "max": 0, "kind": "P", "name": nm}
				} else {
					steps = append(steps, send(M{"t": "P", "name": nm, "q": g.trivialQ(), "noids": 0}), send(M{"t": "C", "kind": "S", "name": nm}))
					if g.chance(0.5) {
						m = M{"t": "B", "portal": nm, "stmt": nm, "pfmt": []any{}, "params": []any{}, "rfmt": []any{}}
					} else {
						m = M{"t": "D", "kind": "S", "name": nm}
					}
				}
			default:
				m = M{"t": g.pick("d", "c", "f")}
			}
		}
		st := send(m)
		if g.chance(0.3) {
			st["nowait"] = true
		}
		steps = append(steps, st)
	}
	steps = append(steps, send(M{"t": "S"}))
	cfg := g.deadCtx(baseCfg())
	g.customCache(cfg, steps, 0.25)
	if g.chance(0.04) {
		cfg["parser"] = "nil" // a server built without a parse function refuses Query and Parse like any failing message
	}
	return M{"cfg": cfg, "steps": steps}
}

// customCache: with probability p the server resolves names through user-supplied (recording) caches, and such
// a cache may fail: names it refuses to store, to look up or to bind.
func (g *gen) customCache(cfg M, steps []any, p float64) {
	if !g.chance(p) {
		return
	}
	cfg["cache"] = "custom"
	if !g.chance(0.5) {
		return
	}
	for _, sv := range steps {
		m := run.AsM(run.AsM(sv)["m"])
		if g.chance(0.12) {
			switch run.S(m, "t") {
			case "P":
				m["name"] = g.pick("xset", "xget")
			case "B":
				if g.chance(0.5) {
					m["stmt"] = "xget"
				} else {
					m["portal"] = "xbind"
				}
			case "D":
				m["name"] = "xget"
			}
		}
	}
}

// behC07: name-resolution histories: every Parse is a fresh definition; a Sync
// follows every message.
func (g *gen) behC07() M {
	steps := []any{g.startupX("u")}
	if g.bulky(0.02) {
		// a long-lived connection: well over a hundred statements and portals defined and closed again - a closed
		// name stays closed, the hundred-and-thirtieth like the first
		rounds := 130 + g.rng.Intn(30)
		for r := 0; r < rounds; r++ {
			q := g.trivialQ()
			steps = append(steps, send(M{"t": "P", "name": "a", "q": q, "noids": 0}),
				send(M{"t": "B", "portal": "p", "stmt": "a", "pfmt": []any{}, "params": []any{}, "rfmt": []any{}}),
				send(M{"t": "C", "kind": "S", "name": "a"}), send(M{"t": "C", "kind": "P", "name": "p"}), send(M{"t": "S"}))
			if r%10 == 9 || r >= 125 {
				steps = append(steps, send(M{"t": "B", "portal": "p2", "stmt": "a", "pfmt": []any{}, "params": []any{}, "rfmt": []any{}}), send(M{"t": "S"}),
					send(M{"t": "E", "portal": "p", "max": 0}), send(M{"t": "S"}))
			}
		}
		return M{"cfg": baseCfg(), "steps": steps}
	}
	n := 1 + g.rng.Intn(30)
	pfrom := map[string]string{}
	tainted := map[string]bool{}
	for i := 0; i < n; i++ {
		var m M
		switch g.rng.Intn(9) {
		case 0, 1:
			g.id++
			id := g.id
			if id > 2 && g.chance(0.25) {
				// the very same query text once more (under this or another name): the parser is consulted for
				// every Parse, whatever was parsed before on this or any other connection
				id = 1 + g.rng.Intn(id-1)
			}
			st := M{"id": id, "cols": []any{M{"name": fmt.Sprintf("v%d", id), "oid": 25}}, "oids": []any{},
				"prog": []any{M{"op": "row", "cells": []any{M{"c": "v", "val": fmt.Sprintf("s:r%d", id)}}}, M{"op": "complete", "tag": "OK"}, M{"op": "ret", "r": "nil"}}}
			m = M{"t": "P", "name": g.name(), "q": M{"id": id, "parse": "ok", "stmts": []any{st}}, "noids": 0}
			if g.chance(0.08) {
				// an empty or blank query text under a name in use: the parser is asked, refuses, and the name
				// keeps what it stood for
				m = M{"t": "P", "name": g.name(), "q": M{"id": id, "parse": "blank", "stmts": []any{}}, "noids": 0}
			}
		case 2, 3:
			np := g.rng.Intn(3)
			params := []any{}
			for j := 0; j < np; j++ {
				if g.chance(0.2) {
					params = append(params, M{"null": true})
				} else {
					params = append(params, M{"null": false, "cls": "short"})
				}
			}
			rf := []any{}
			if g.chance(0.5) {
				rf = []any{g.rng.Intn(2)}
			}
			m = M{"t": "B", "portal": g.name(), "stmt": g.name(), "pfmt": []any{}, "params": params, "rfmt": rf}
			pfrom[run.S(m, "portal")] = run.S(m, "stmt")
			delete(tainted, run.S(m, "portal"))
		case 4:
			m = M{"t": "D", "kind": "S", "name": g.name()}
		case 5:
			m = M{"t": "D", "kind": "P", "name": g.name()}
		case 6, 7:
			m = M{"t": "E", "portal": g.name(), "max": g.maxRows()}
		case 8:
			m = M{"t": "C", "kind": g.pick("S", "P"), "name": g.name()}
			if run.S(m, "kind") == "S" {
				for p, s := range pfrom {
					if s == run.S(m, "name") {
						tainted[p] = true
					}
				}
			}
		}
		if t := run.S(m, "t"); (t == "E" && tainted[run.S(m, "portal")]) || (t == "D" && run.S(m, "kind") == "P" && tainted[run.S(m, "name")]) {
			continue
		}
		st := send(m)
		st["nowait"] = true
		steps = append(steps, st, send(M{"t": "S"}))
	}
	cfg := baseCfg()
	g.customCache(cfg, steps, 0.4)
	return M{"cfg": cfg, "steps": steps}
}

var c08Types = []int{16, 21, 23, 20, 701, 25, 1043, 17}

func (g *gen) codeList(n int) []any {
	switch g.rng.Intn(4) {
	case 0:
		return []any{}
	case 1:
		return []any{g.rng.Intn(2)}
	}
	if n < 2 {
		return []any{g.rng.Intn(2)}
	}
	if g.odd && n >= 3 && g.chance(0.3) {
		// more than one code but fewer than columns / parameters: outside the protocol (0, 1 or n codes);
		// what the library makes of it is not prescribed, only that it survives
		out := make([]any, 2+g.rng.Intn(n-2))
		for i := range out {
			out[i] = g.rng.Intn(2)
		}
		return out
	}
	out := make([]any, n)
	for i := range out {
		out[i] = g.rng.Intn(2)
	}
	return out
}

// behC08: Bind parameters and format codes with rich values: up to 300
// parameters, typed declared parameters, random result columns.
func (g *gen) behC08() M {
	steps := []any{g.startupX("u")}
	rounds := 1 + g.rng.Intn(3)
	many := false
	for r := 0; r < rounds; r++ {
		g.id++
		id := g.id
		np := g.rng.Intn(6)
		if g.chance(0.1) {
			np = 50 + g.rng.Intn(250)
		}
		typed := g.chance(0.5)
		if r == 0 && g.bulky(0.012) {
			// as many parameters, each with a format code of its own, as the 16-bit counts of Bind allow
			np = []int{32767, 32768, 40000, 65535}[g.rng.Intn(4)]
			typed = false
			many = true
		}
		oids := []any{}
		if typed {
			for i := 0; i < np; i++ {
				if g.chance(0.3) {
					oids = append(oids, 0) // declared with an unspecified type
				} else {
					oids = append(oids, c08Types[g.rng.Intn(len(c08Types))])
				}
			}
		}
		nc := 1 + g.rng.Intn(4)
		cols := []any{}
		for i := 0; i < nc; i++ {
			cols = append(cols, M{"name": fmt.Sprintf("c%d", i), "oid": c08Types[g.rng.Intn(len(c08Types))]})
		}
		prog := []any{}
		for i := 0; i < g.rng.Intn(4); i++ {
			cells := []any{}
			for j := 0; j < nc; j++ {
				co := run.I(run.AsM(cols[j]), "oid")
				if g.chance(0.15) {
					cells = append(cells, M{"c": "null", "nk": g.pick("nil", "ptr", "inv")})
				} else if (co == 21 || co == 23 || co == 20) && g.chance(0.2) {
					cells = append(cells, M{"c": "tonly"}) // text rendering only: refused under a binary result format
				} else {
					cells = append(cells, M{"c": "v"})
				}
			}
			prog = append(prog, M{"op": "row", "cells": cells})
		}
		prog = append(prog, M{"op": "complete", "tag": "SELECT"}, M{"op": "ret", "r": "nil"})
		st := M{"id": id, "cols": cols, "oids": oids, "prog": prog}
		name := g.name()
		portal := g.name()
		steps = append(steps, send(M{"t": "P", "name": name, "q": M{"id": id, "parse": "ok", "stmts": []any{st}}, "noids": g.rng.Intn(5)}))
		if g.chance(0.5) {
			steps = append(steps, send(M{"t": "D", "kind": "S", "name": name}))
		}
		params := []any{}
		for i := 0; i < np; i++ {
			switch {
			case many && r == 0:
				// (values without bytes: the message stays well under the size limit)
				params = append(params, M{"null": g.chance(0.3), "cls": "empty"})
			case g.chance(0.15):
				params = append(params, M{"null": true})
			case !typed && g.chance(0.15):
				params = append(params, M{"null": false, "cls": "empty"})
			case !typed && g.chance(0.1):
				params = append(params, M{"null": false, "cls": "nul"})
			default:
				params = append(params, M{"null": false, "cls": "short"})
			}
		}
		pf := g.codeList(np)
		if many && r == 0 {
			pf = make([]any, np)
			for i := range pf {
				pf[i] = g.rng.Intn(2)
			}
		}
		steps = append(steps, send(M{"t": "B", "portal": portal, "stmt": name, "pfmt": pf, "params": params, "rfmt": g.codeList(nc)}))
		if g.chance(0.3) {
			// the same portal bound again to the same statement (no Parse, no Close in between): the later Bind
			// is the one that counts - its parameters and its result formats
			if g.chance(0.5) {
				steps = append(steps, send(M{"t": "D", "kind": "P", "name": portal}))
			}
			again := []any{}
			for i := 0; i < np; i++ {
				if many && r == 0 {
					again = append(again, M{"null": g.chance(0.5), "cls": "empty"})
				} else if g.chance(0.2) {
					again = append(again, M{"null": true})
				} else {
					again = append(again, M{"null": false, "cls": "short"})
				}
			}
			steps = append(steps, send(M{"t": "B", "portal": portal, "stmt": name, "pfmt": g.codeList(np), "params": again, "rfmt": g.codeList(nc)}))
		}
		other := ""
		if g.chance(0.5) {
			// a second portal on the same statement, bound afterwards with other parameters and result
			// formats, stays alive next to the first one: each keeps what its own Bind said
			other = g.pick("o1", "o2")
			params2 := []any{}
			for i := 0; i < np; i++ {
				if many && r == 0 {
					params2 = append(params2, M{"null": g.chance(0.5), "cls": "empty"})
				} else if g.chance(0.2) {
					params2 = append(params2, M{"null": true})
				} else {
					params2 = append(params2, M{"null": false, "cls": "short"})
				}
			}
			steps = append(steps, send(M{"t": "B", "portal": other, "stmt": name, "pfmt": g.codeList(np), "params": params2, "rfmt": g.codeList(nc)}))
		}
		if g.chance(0.7) {
			steps = append(steps, send(M{"t": "D", "kind": "P", "name": portal}))
		}
		steps = append(steps, send(M{"t": "E", "portal": portal, "max": g.maxRows()}))
		if other != "" && other != portal {
			steps = append(steps, send(M{"t": "D", "kind": "P", "name": other}), send(M{"t": "E", "portal": other, "max": g.maxRows()}))
		}
		if g.chance(0.3) {
			// a portal may be executed again (here, or after the Sync): it still carries its Bind's parameters
			if g.chance(0.5) {
				steps = append(steps, send(M{"t": "S"}))
			}
			steps = append(steps, send(M{"t": "E", "portal": portal, "max": g.maxRows()}))
		}
		steps = append(steps, send(M{"t": "S"}))
	}
	cfg := baseCfg()
	cfg["limit"] = 1 << 20
	if many {
		cfg["limit"] = 1 << 22
	}
	return M{"cfg": cfg, "steps": steps}
}

func (g *gen) errText() string {
	const alpha = "abcdefghijklmnopqrstuvwxyzABCDEFGHIJKLMNOPQRSTUVWXYZ0123456789 _-.,;:!?()[]{}<>=+*/%&|^~#@$'\"\\\n\téü日本"
	r := []rune(alpha)
	n := 1 + g.rng.Intn(30)
	out := make([]rune, n)
	for i := range out {
		out[i] = r[g.rng.Intn(len(r))]
	}
	return string(out)
}

// richErr: random decorator stacks up to depth 10 (repetitions included).
func (g *gen) richErr() M {
	n := g.rng.Intn(11)
	layers := []any{}
	// (codes need not have five characters: a class-only or mistyped code is sent as it is)
	codes := []string{"22012", "23505", "42601", "XX000", "XX001", "P0001", "00000", "57014", "XXUUU", "23", "P001", "0",
		// (the severity of an error is what its decorations say, ERROR when they say nothing - whatever the code)
		"08006", "08P01", "08000", "57P01", "57P02", "57P03", "53300", "28P01"}
	sevs := []string{"ERROR", "FATAL", "PANIC", "WARNING", "NOTICE", "DEBUG", "INFO", "LOG"}
	for i := 0; i < n; i++ {
		switch g.rng.Intn(7) {
		case 0:
			layers = append(layers, M{"d": "code", "v": codes[g.rng.Intn(len(codes))]})
		case 1:
			layers = append(layers, M{"d": "sev", "v": sevs[g.rng.Intn(len(sevs))]})
		case 2:
			layers = append(layers, M{"d": "hint", "v": g.maybeEmpty()})
		case 3:
			layers = append(layers, M{"d": "detail", "v": g.maybeEmpty()})
		case 4:
			layers = append(layers, M{"d": "cons", "v": g.maybeEmpty()})
		case 5:
			layers = append(layers, M{"d": "wrap", "v": g.errText()})
		case 6:
			line := []int{0, 1, 42, 65535, 2147483647, -1, 48, 12345}[g.rng.Intn(8)]
			// a source location is set as a whole: an empty file or function name is still sent
			file, fn := g.errText(), g.errText()
			if g.chance(0.15) {
				file = ""
			}
			if g.chance(0.15) {
				fn = ""
			}
			layers = append(layers, M{"d": "src", "file": file, "line": fmt.Sprint(line), "fn": fn})
		}
	}
	base := g.errText()
	if g.chance(0.05) {
		base = "" // an error without text: the message field is mandatory and is sent empty
	}
	return M{"base": base, "layers": layers}
}

// maybeEmpty: a decoration may be set to the empty text (E19: whether the field is then sent empty or left out is
// not prescribed - but an outer empty decoration still hides an inner one of its kind)
func (g *gen) maybeEmpty() string {
	if g.chance(0.12) {
		return ""
	}
	return g.errText()
}

func (g *gen) behC17() M {
	steps := []any{g.startupX("u")}
	if g.chance(0.25) {
		// an error value that is kept: reported, then decorated once more with the decoration it already carries
		// outermost (and that one reported), then reported again as it was
		kept := g.richErr()
		d := g.pick("hint", "detail", "cons", "code", "sev")
		v := map[string]string{"hint": g.errText(), "detail": g.errText(), "cons": g.errText(), "code": "23505", "sev": "WARNING"}[d]
		v2 := map[string]string{"hint": g.errText(), "detail": g.errText(), "cons": g.errText(), "code": "42601", "sev": "FATAL"}[d]
		kept["layers"] = append([]any{M{"d": d, "v": v}}, kept["layers"].([]any)...)
		more := M{"base": kept["base"], "layers": append([]any{M{"d": d, "v": v2}}, kept["layers"].([]any)...)}
		for _, e := range []M{kept, more, kept} {
			g.id++
			st := M{"id": g.id, "cols": []any{}, "oids": []any{}, "prog": []any{M{"op": "ret", "r": "err", "err": e}}}
			steps = append(steps, send(M{"t": "Q", "q": M{"id": g.id, "parse": "ok", "stmts": []any{st}}}))
		}
	}
	n := 1 + g.rng.Intn(6)
	for i := 0; i < n; i++ {
		g.id++
		id := g.id
		switch g.rng.Intn(5) {
		case 0:
			steps = append(steps, send(M{"t": "Q", "q": M{"id": id, "parse": "err", "perr": g.richErr(), "stmts": []any{}}}))
		case 1:
			if g.chance(0.5) {
				steps = append(steps, M{"k": "errorcode", "err": nil})
			} else {
				steps = append(steps, M{"k": "errorcode", "err": g.richErr()})
			}
		case 2:
			// extended protocol: failing statement function
			st := M{"id": id, "cols": []any{}, "oids": []any{}, "prog": []any{M{"op": "ret", "r": "err", "err": g.richErr()}}}
			steps = append(steps, send(M{"t": "P", "name": "", "q": M{"id": id, "parse": "ok", "stmts": []any{st}}, "noids": 0}),
				send(M{"t": "B", "portal": "", "stmt": "", "pfmt": []any{}, "params": []any{}, "rfmt": []any{}}),
				send(M{"t": "E", "portal": "", "max": g.maxRows()}), send(M{"t": "S"}))
		default:
			st := M{"id": id, "cols": g.cols(1), "oids": []any{}, "prog": []any{g.row("ok", 1), M{"op": "ret", "r": "err", "err": g.richErr()}}}
			steps = append(steps, send(M{"t": "Q", "q": M{"id": id, "parse": "ok", "stmts": []any{st}}}))
		}
	}
	return M{"cfg": baseCfg(), "steps": steps}
}

// behC13: COPY-in sessions: random column counts/format, random chunk
// payloads (binary, up to 20 KiB), random handler stopping points, stray COPY
// messages afterwards, simple and extended protocol.
func (g *gen) behC13() M {
	steps := []any{g.startupX("u")}
	rounds := 1 + g.rng.Intn(3)
	for r := 0; r < rounds; r++ {
		g.id++
		id := g.id
		nc := 1 + g.rng.Intn(3)
		if g.chance(0.05) {
			nc = 0
		}
		nreads := g.rng.Intn(8)
		prog := []any{M{"op": "copyin", "fmt": g.rng.Intn(2)}}
		for i := 0; i < nreads; i++ {
			prog = append(prog, M{"op": "copyread", "onerr": "ret"})
		}
		switch g.rng.Intn(4) {
		case 0:
			prog = append(prog, M{"op": "ret", "r": "err", "err": g.simpleErr()})
		default:
			prog = append(prog, M{"op": "complete", "tag": "COPY " + g.text(4)}, M{"op": "ret", "r": "nil"})
		}
		cols := g.cols(nc)
		for _, cv := range cols {
			// COPY does not depend on the column types being known to the type map (money, xml, unspecified,
			// an extension type): the handler may well read the raw chunks itself
			run.AsM(cv)["oid"] = []int{25, 25, 23, 790, 142, 0, 99999}[g.rng.Intn(7)]
		}
		st := M{"id": id, "cols": cols, "oids": []any{}, "prog": prog}
		q := M{"id": id, "parse": "ok", "stmts": []any{st}}
		ext := g.chance(0.3)
		if ext {
			steps = append(steps, send(M{"t": "P", "name": "", "q": q, "noids": 0}),
				send(M{"t": "B", "portal": "", "stmt": "", "pfmt": []any{}, "params": []any{}, "rfmt": g.codeList(nc)}),
				send(M{"t": "E", "portal": "", "max": g.maxRows()}))
		} else {
			steps = append(steps, send(M{"t": "Q", "q": q}))
		}
		nm := g.rng.Intn(10)
		for i := 0; i < nm; i++ {
			var m M
			switch g.rng.Intn(12) {
			case 0:
				m = M{"t": "c"}
			case 1:
				m = M{"t": "f"}
			case 2:
				m = M{"t": "H"}
			case 3:
				m = M{"t": "S"}
			case 4:
				switch g.rng.Intn(6) {
				case 5:
					// a message over the size limit is a foreign message as well: skipped in full, the COPY aborted
					m = M{"t": "Big", "ty": g.pick("d", "Q", "c", "U"), "over": 1 + g.rng.Intn(3000)}
				case 0:
					g.id++
					m = M{"t": "Q", "q": M{"id": g.id, "parse": "ok", "stmts": []any{M{"id": g.id, "cols": []any{}, "oids": []any{}, "prog": []any{M{"op": "complete", "tag": "X"}, M{"op": "ret", "r": "nil"}}}}}}
				case 1:
					m = M{"t": "E", "portal": "", "max": g.maxRows()}
				case 2:
					m = M{"t": g.pick("D", "C", "C"), "kind": g.pick("P", "S"), "name": ""} // Describe / Close are foreign messages too
					if g.chance(0.4) {
						// a CopyFail that is not even well-formed (no reason, or no terminator) aborts the COPY all the same
						m = M{"t": "Bad", "ty": "f", "cls": g.pick("short", "nonul")}
					}
				case 3:
					if r == rounds-1 {
						m = M{"t": "X"} // Terminate in the middle of a COPY is a foreign message like any other
					} else {
						m = M{"t": "U"}
					}
				default:
					m = M{"t": "U"}
				}
			default:
				n := g.rng.Intn(64)
				if g.chance(0.1) {
					n = 4000 + g.rng.Intn(16000)
				}
				if g.chance(0.06) {
					n = 65536 - g.rng.Intn(6) // a payload as large as the size limit allows, or a few bytes less
				}
				b := make([]byte, n)
				g.rng.Read(b)
				if g.chance(0.12) {
					// payloads that look like the textual end-of-data marker are data like any other
					b = []byte(g.pick("\\.\n", "\\.", "\\.\r\n", "\\.\n\\.\n"))
				}
				m = M{"t": "d", "_hex": hex.EncodeToString(b)}
			}
			stp := send(m)
			if g.chance(0.4) {
				stp["nowait"] = true
			} else if g.chance(0.3) && m["t"] != "Big" {
				stp["cut"] = 1 + g.rng.Intn(40) // delivered in two pieces (inside the header, or inside the body)
			}
			steps = append(steps, stp)
		}
		// make sure the COPY is over before the next round: CopyDone, then Sync
		steps = append(steps, send(M{"t": "c"}), send(M{"t": "c"}), send(M{"t": "S"}))
		if g.chance(0.5) {
			// the COPY is over: a late CopyFail without reason or terminator (the handler had given up while it
			// was under way) is a stray COPY message like any other, ignored whatever its body; the session goes on
			steps = append(steps, send(M{"t": "Bad", "ty": "f", "cls": g.pick("short", "nonul")}), send(M{"t": "Q", "q": g.trivialQ()}))
		}
	}
	return M{"cfg": g.deadCtx(baseCfg()), "steps": steps}
}

func (g *gen) trivialQ() M {
	g.id++
	return M{"id": g.id, "parse": "ok", "stmts": []any{M{"id": g.id, "cols": []any{}, "oids": []any{}, "prog": []any{M{"op": "complete", "tag": "OK"}, M{"op": "ret", "r": "nil"}}}}}
}

// behC01: authentication with random credentials, every kind of message in
// place of the password, random continuations (pipelined or not).
func (g *gen) behC01() M {
	cfg := baseCfg()
	cfg["auth"] = "clear"
	if g.chance(0.2) {
		cfg["auth"] = g.pick("custom-ok", "custom-fail") // an authentication strategy of the user's own
	}
	cfg["mw"] = []any{"ok"}
	cfg["term"] = "ok"
	cfg["limit"] = 8192
	steps := []any{}
	if g.chance(0.2) {
		steps = append(steps, send(M{"t": "SSLRequest"}))
	}
	kvs := []any{}
	if g.chance(0.9) {
		kvs = append(kvs, M{"k": "user", "v": g.text(12)})
	}
	if g.chance(0.7) {
		kvs = append(kvs, M{"k": "database", "v": g.text(12)})
	}
	if g.chance(0.3) {
		kvs = append(kvs, M{"k": "application_name", "v": g.text(8)})
	}
	st0 := M{"t": "Startup", "term": true, "kvs": kvs}
	if g.chance(0.25) {
		st0["tail"] = "good-" + g.text(6) // surplus behind the terminator that would pass for a password
	}
	steps = append(steps, send(st0))
	var m M
	switch g.rng.Intn(13) {
	case 12:
		m = M{"t": "Bad", "ty": "p", "cls": "short"}
	case 0, 1, 2:
		m = M{"t": "p", "pw": "good"}
	case 3, 4, 5:
		m = M{"t": "p", "pw": "bad"}
	case 6:
		m = M{"t": "p", "pw": g.pick("err", "errc", "gooderr")}
	case 7:
		m = M{"t": "Q", "q": g.trivialQ()}
	case 8:
		m = M{"t": g.pick("X", "S", "H", "U", "d", "c")}
	case 9:
		m = M{"t": "Bad", "ty": "p", "cls": "nonul"}
	case 10:
		m = M{"t": "Big", "ty": g.pick("p", "Q"), "over": 1 + g.rng.Intn(50)}
	default:
		m = M{"t": "Tiny", "ty": "p", "declared": g.rng.Intn(4)}
	}
	st := send(m)
	if g.chance(0.5) {
		st["nowait"] = true
	}
	steps = append(steps, st)
	n := g.rng.Intn(4)
	for i := 0; i < n; i++ {
		switch g.rng.Intn(5) {
		case 0:
			m = M{"t": "Q", "q": g.trivialQ()}
		case 1:
			m = M{"t": "P", "name": "", "q": g.trivialQ(), "noids": 0}
		case 2:
			m = M{"t": "S"}
		case 3:
			m = M{"t": "p", "pw": "good"}
		default:
			m = M{"t": "X"}
		}
		st := send(m)
		if g.chance(0.5) {
			st["nowait"] = true
		}
		steps = append(steps, st)
	}
	return M{"cfg": cfg, "steps": steps}
}

// behC12: startup packets with random keys/values (duplicates, empties, long
// values), random configured maps, version, auth, Cancel.
func (g *gen) behC12() M {
	cfg := baseCfg()
	cfg["limit"] = 8192
	cfg["mw"] = []any{"ok"}
	if g.chance(0.3) {
		cfg["auth"] = "clear"
	}
	if g.chance(0.5) {
		cfg["version"] = g.pick("15.2", "9.6", "psql-wire")
	}
	params := M{}
	for i := 0; i < g.rng.Intn(4); i++ {
		params[g.pick("a", "b", "TimeZone", "server_encoding", "client_encoding", "is_superuser", "session_authorization", "server_version", "DateStyle")] = g.pick("", "x", g.text(20))
	}
	cfg["params"] = params
	steps := []any{}
	if g.chance(0.08) {
		steps = append(steps, send(M{"t": "GSSENC"})) // libpq with gssencmode=prefer asks for GSS encryption first
	}
	if g.chance(0.2) {
		steps = append(steps, send(M{"t": "SSLRequest"}))
		if g.chance(0.2) {
			steps = append(steps, send(M{"t": g.pick("SSLRequest", "GSSENC")}))
		}
	}
	if g.chance(0.1) {
		steps = append(steps, send(M{"t": "Cancel"}))
		return M{"cfg": cfg, "steps": steps}
	}
	kvs := []any{}
	for i := 0; i < g.rng.Intn(7); i++ {
		v := g.pick("", "x", g.text(30))
		if g.chance(0.05) {
			v = g.text(3000)
		}
		kvs = append(kvs, M{"k": g.pick("user", "user", "database", "application_name", "client_encoding", "k", g.text(6)), "v": v})
		if g.chance(0.3) {
			kvs = append(kvs, g.wellKnownKV())
		}
	}
	steps = append(steps, send(M{"t": "Startup", "term": !g.chance(0.1), "kvs": kvs}))
	if cfg["auth"] == "clear" {
		steps = append(steps, send(M{"t": "p", "pw": "good"}))
	}
	steps = append(steps, send(M{"t": "Q", "q": g.trivialQ()}))
	return M{"cfg": cfg, "steps": steps}
}

// behC19: session lifecycle: up to 6 middlewares, failing anywhere, longer
// command histories mixing both protocols, terminate hook on/off.
func (g *gen) behC19() M {
	cfg := baseCfg()
	cfg["limit"] = 8192
	nmw := g.rng.Intn(7)
	mw := []any{}
	for i := 0; i < nmw; i++ {
		if g.chance(0.1) {
			mw = append(mw, g.pick("fail", "failnil"))
		} else {
			mw = append(mw, "ok")
		}
	}
	cfg["mw"] = mw
	if g.chance(0.3) {
		cfg["auth"] = "clear"
	}
	if g.chance(0.6) {
		cfg["term"] = g.pick("ok", "ok", "fail")
	}
	steps := []any{g.startupX(g.text(8))}
	if cfg["auth"] == "clear" {
		steps = append(steps, send(M{"t": "p", "pw": "good"}))
	}
	n := g.rng.Intn(10)
	for i := 0; i < n; i++ {
		switch g.rng.Intn(4) {
		case 0:
			steps = append(steps, send(M{"t": "P", "name": "", "q": g.trivialQ(), "noids": 0}),
				send(M{"t": "B", "portal": "", "stmt": "", "pfmt": []any{}, "params": []any{}, "rfmt": []any{}}),
				send(M{"t": "E", "portal": "", "max": g.maxRows()}), send(M{"t": "S"}))
		default:
			q := g.trivialQ()
			if g.chance(0.3) {
				g.id++
				q["stmts"] = append(q["stmts"].([]any), M{"id": g.id, "cols": []any{}, "oids": []any{}, "prog": []any{M{"op": "complete", "tag": "OK2"}, M{"op": "ret", "r": "nil"}}})
			}
			steps = append(steps, send(M{"t": "Q", "q": q}))
		}
	}
	if g.chance(0.3) {
		// a failing extended-protocol message, no Sync: the session is discarding when Terminate arrives
		g.id++
		steps = append(steps, send(M{"t": "P", "name": "", "q": M{"id": g.id, "parse": "err", "perr": g.simpleErr(), "stmts": []any{}}, "noids": 0}))
		if g.chance(0.5) {
			steps = append(steps, send(M{"t": "E", "portal": "", "max": g.maxRows()}))
		}
	}
	if g.chance(0.6) {
		if g.chance(0.4) {
			// Terminate and what follows it reach the server in one segment: nothing after it is served
			x := send(M{"t": "X"})
			x["glue"] = true
			steps = append(steps, x)
			n := 1 + g.rng.Intn(3)
			for i := 0; i < n; i++ {
				var m M
				switch g.rng.Intn(3) {
				case 0:
					m = M{"t": "X"}
				case 1:
					m = M{"t": "Q", "q": g.trivialQ()}
				default:
					m = M{"t": "S"}
				}
				st := send(m)
				if i < n-1 {
					st["glue"] = true
				}
				steps = append(steps, st)
			}
		} else {
			steps = append(steps, send(M{"t": "X"}))
		}
	}
	return M{"cfg": cfg, "steps": steps}
}

// behC10: random concrete limits and declared lengths around them, every
// message type, random positions in a session.
func (g *gen) behC10() M {
	cfg := baseCfg()
	// (limits below 16 - the smallest buffer bufio hands out - are limits all the same)
	limits := []int{8, 12, 15, 16, 17, 31, 64, 100, 4095, 4096, 4097, 8191, 8192, 8193, 65536}
	L := limits[g.rng.Intn(len(limits))]
	cfg["limit"] = L
	cfg["term"] = "ok"
	steps := []any{send(M{"t": "Startup", "term": true, "kvs": []any{M{"k": "user", "v": "u"}}})}
	if L < 12 {
		steps = []any{send(M{"t": "Startup", "term": true, "kvs": []any{}})} // the start-up packet has to fit as well
	}
	types := []string{"Q", "P", "B", "D", "E", "C", "H", "S", "X", "d", "c", "f", "p", "U"}
	n := 1 + g.rng.Intn(8)
	for i := 0; i < n; i++ {
		var m M
		switch g.rng.Intn(10) {
		case 0, 1, 2:
			q := g.trivialQ()
			if run.I(q, "id") > 99 {
				q["id"] = 99
				run.AsM(q["stmts"].([]any)[0])["id"] = 99
			}
			m = M{"t": "Q", "q": q, "fit": g.pick("L", "Lm1", "small")}
		case 3, 4, 5, 6:
			over := []int{1, 2, L - 1, L, L + 1, 2 * L, 2*L + 1, 3*L + 7}[g.rng.Intn(8)]
			if over < 1 {
				over = 1
			}
			m = M{"t": "Big", "ty": types[g.rng.Intn(len(types))], "over": over}
		case 7:
			m = M{"t": "Tiny", "ty": g.pick("Q", "P", "S", "X", "B"), "declared": g.rng.Intn(4)}
		case 8:
			m = M{"t": "S"}
		default:
			if L >= 64 && g.chance(0.5) {
				// an oversized message arriving while a handler reads COPY data
				g.id++
				cid := 90 + g.id%9
				st := M{"id": cid, "cols": g.cols(1), "oids": []any{}, "prog": []any{M{"op": "copyin", "fmt": 0}, M{"op": "copyread", "onerr": "ret"}, M{"op": "copyread", "onerr": "ret"}, M{"op": "complete", "tag": "COPY"}, M{"op": "ret", "r": "nil"}}}
				steps = append(steps, send(M{"t": "Q", "q": M{"id": cid, "parse": "ok", "stmts": []any{st}}}), send(M{"t": "d"}),
					send(M{"t": "Big", "ty": g.pick("d", "Q", "U"), "over": 1 + g.rng.Intn(2*L)}), send(M{"t": "c"}))
				if g.chance(0.4) {
					run.AsM(steps[len(steps)-2])["glue"] = true
				}
				continue
			}
			m = M{"t": "H"}
		}
		st := send(m)
		if g.chance(0.3) {
			st["nowait"] = true
		} else if g.chance(0.3) {
			st["glue"] = true // in one write with the message behind it: what follows an oversized message is already there
		}
		steps = append(steps, st)
	}
	if g.chance(0.2) {
		steps = append(steps, send(M{"t": "Huge", "ty": g.pick("Q", "B", "d"), "declared": g.pick("2^31", "2^32-5", "2^32-1"), "sent": g.rng.Intn(40)}))
	} else {
		steps = append(steps, send(M{"t": "S"}))
	}
	return M{"cfg": cfg, "steps": steps}
}

// behC20: long random queries: many markers, repetitions, large indexes.
func (g *gen) behC20() M {
	n := g.rng.Intn(40)
	toks := []any{}
	style := g.rng.Intn(3) // 0: $n, 1: ?, 2: $n with beyond-limit indexes
	for i := 0; i < n; i++ {
		switch {
		case g.chance(0.4):
			toks = append(toks, M{"k": "text"})
		case style == 1:
			toks = append(toks, M{"k": "q"})
		default:
			idx := []int{0, 1, 2, 3, 4, 5, 7, 10, 100, 1000, 65534, 65535}[g.rng.Intn(12)]
			if g.chance(0.5) {
				idx = g.rng.Intn(20)
			}
			if style == 2 && g.chance(0.3) {
				idx = -1
			}
			toks = append(toks, M{"k": "d", "n": idx})
		}
	}
	if g.bulky(0.012) {
		// more occurrences of markers than the protocol has parameters: the limit is on the highest index, not on
		// how often indexes are written - the highest one may well come last
		k := []int{65535, 65536, 70000}[g.rng.Intn(3)]
		lo := g.rng.Intn(2) // $0 counts for nothing, $1 for one
		toks = make([]any, 0, k+2)
		for i := 0; i < k; i++ {
			toks = append(toks, M{"k": "d", "n": lo})
		}
		toks = append(toks, M{"k": "text"}, M{"k": "d", "n": lo + 1 + g.rng.Intn(3)})
	}
	steps := []any{M{"k": "parseparams", "toks": toks}}
	beyond := false
	for _, t := range toks {
		if run.I(run.AsM(t), "n") < 0 {
			beyond = true
		}
	}
	if !beyond {
		g.id++
		st := M{"id": g.id, "cols": []any{}, "oids": []any{}, "toks": toks, "prog": []any{M{"op": "complete", "tag": "OK"}, M{"op": "ret", "r": "nil"}}}
		if g.chance(0.15) {
			st["nodeclare"] = true // the handler declares no parameters, whatever markers its text holds: none are announced
		}
		// the frontend may prespecify any number of parameter types: Describe still announces what ParseParameters reported
		nm := g.pick("", "", "Lookup", "s_1")
		if g.chance(0.3) {
			// an earlier statement of the session declares typed parameters (the application wrote the types into
			// a list it got from ParseParameters): the placeholders of later statements are unspecified all the same
			g.id++
			typed := M{"id": g.id, "cols": []any{}, "oids": []any{23, 25, 1043, 20}[:1+g.rng.Intn(4)], "prog": []any{M{"op": "complete", "tag": "OK"}, M{"op": "ret", "r": "nil"}}}
			steps = append(steps, startup("u"), send(M{"t": "P", "name": "typed", "q": M{"id": g.id, "parse": "ok", "stmts": []any{typed}}, "noids": 0}), send(M{"t": "S"}))
			steps = append(steps, send(M{"t": "P", "name": nm, "q": M{"id": g.id + 1, "parse": "ok", "stmts": []any{st}}, "noids": 0}))
			g.id++
			st["id"] = g.id
			steps = append(steps, send(M{"t": "D", "kind": "S", "name": nm}), send(M{"t": "S"}))
			cfg := baseCfg()
			cfg["limit"] = 1 << 20
			return M{"cfg": cfg, "steps": steps}
		}
		steps = append(steps, startup("u"), send(M{"t": "P", "name": nm, "q": M{"id": g.id, "parse": "ok", "stmts": []any{st}}, "noids": []int{0, 0, 1, 2, 3, 7}[g.rng.Intn(6)]}))
		if nm != "" && g.chance(0.6) {
			// another statement under a name that differs in letter case only, with another number of
			// parameters: the first one's Describe still announces its own
			g.id++
			other := []any{}
			for k := 0; k < g.rng.Intn(4); k++ {
				other = append(other, M{"k": "q"}, M{"k": "text"})
			}
			st2 := M{"id": g.id, "cols": []any{}, "oids": []any{}, "toks": other, "prog": []any{M{"op": "complete", "tag": "OK"}, M{"op": "ret", "r": "nil"}}}
			steps = append(steps, send(M{"t": "P", "name": strings.ToLower(nm), "q": M{"id": g.id, "parse": "ok", "stmts": []any{st2}}, "noids": 0}))
			if nm == "s_1" {
				steps[len(steps)-1] = send(M{"t": "P", "name": "S_1", "q": M{"id": g.id, "parse": "ok", "stmts": []any{st2}}, "noids": 0})
			}
		}
		steps = append(steps, send(M{"t": "D", "kind": "S", "name": nm}), send(M{"t": "S"}))
	}
	cfg := baseCfg()
	cfg["limit"] = 1 << 20
	return M{"cfg": cfg, "steps": steps}
}

// scnC14: random binary COPY scenarios: 0..4 columns, up to 6 rows, random
// NULL placement, header/trailer, random byte-level cuts (up to one per byte),
// corrupted field counts, truncation at any byte.
func (g *gen) scnC14() M {
	ncols := 1 + g.rng.Intn(4)
	nrows := g.rng.Intn(7)
	table := []any{}
	cells := 0
	hdr := g.chance(0.8)
	ext := 0
	if hdr {
		cells += 4
		if g.chance(0.3) {
			ext = 1 + g.rng.Intn(3) // a header extension area, which readers skip
			cells += ext
		}
	}
	for r := 0; r < nrows; r++ {
		row := []any{}
		cells += 2
		for j := 0; j < ncols; j++ {
			switch g.rng.Intn(6) {
			case 0:
				row = append(row, M{"c": "null"})
				cells += 2
			case 1:
				row = append(row, M{"c": "e"})
				cells += 2
			case 2:
				row = append(row, M{"c": "v", "n": 2})
				cells += 4
			default:
				row = append(row, M{"c": "v", "n": 1})
				cells += 3
			}
		}
		table = append(table, row)
	}
	// a column that holds an "e" field needs a type with an empty encoding; values in such a column
	// are therefore text-like: keep 2-cell values out of it (text values may be a single byte)
	for j := 0; j < ncols; j++ {
		hasE := false
		for _, rv := range table {
			if run.S(run.AsM(rv.([]any)[j]), "c") == "e" {
				hasE = true
			}
		}
		if hasE {
			for _, rv := range table {
				f := run.AsM(rv.([]any)[j])
				if run.S(f, "c") == "v" && run.I(f, "n") == 2 {
					f["n"] = 1
					cells--
				}
			}
		}
	}
	trailer := g.chance(0.7)
	if trailer {
		cells += 2
	}
	corrupt := M{"kind": "none"}
	switch g.rng.Intn(6) {
	case 0:
		if nrows > 0 {
			to := []int{ncols + 1, ncols - 1, 0, -1, ncols + 2, 65534}[g.rng.Intn(6)]
			if to != ncols && to >= -1 {
				corrupt = M{"kind": "cnt", "row": 1 + g.rng.Intn(nrows), "to": to}
			}
		}
	case 1:
		if cells > 0 {
			corrupt = M{"kind": "trunc", "at": g.rng.Intn(cells), "mid": g.chance(0.5)}
		}
	case 2:
		if nrows > 0 {
			corrupt = M{"kind": "len", "row": 1 + g.rng.Intn(nrows), "col": 1 + g.rng.Intn(ncols)}
		}
	case 3:
		// a correctly framed value of the wrong size for a fixed-width column
		for try := 0; try < 10 && nrows > 0; try++ {
			r, j := g.rng.Intn(nrows), g.rng.Intn(ncols)
			f := run.AsM(table[r].([]any)[j])
			hasE := false
			for _, rv := range table {
				if run.S(run.AsM(rv.([]any)[j]), "c") == "e" {
					hasE = true
				}
			}
			if !hasE && run.S(f, "c") == "v" && run.I(f, "n") == 2 {
				corrupt = M{"kind": "width", "row": r + 1, "col": j + 1, "how": g.pick("short", "long")}
				break
			}
		}
	}
	bytecuts := []any{}
	switch g.rng.Intn(4) {
	case 0: // one byte per chunk
		for i := 1; i < 4000; i++ {
			bytecuts = append(bytecuts, i)
		}
	case 1:
		for i := 0; i < g.rng.Intn(6); i++ {
			bytecuts = append(bytecuts, 1+g.rng.Intn(200))
		}
	}
	return M{"table": table, "hdr": hdr, "trailer": trailer, "corrupt": corrupt, "cuts": []any{}, "bytecuts": bytecuts,
		"ncols": ncols, "ext": ext, "emptychunks": g.chance(0.2), "limit": []int{0, 0, 0, 64, 100, 256}[g.rng.Intn(6)]}
}

// behC09: rows over all 13 types, 1..8 columns, up to 10 rows, random NULL
// kinds and empties, both protocols, random result-format lists.
func (g *gen) behC09() M {
	steps := []any{g.startupX("u")}
	rounds := 1 + g.rng.Intn(3)
	for r := 0; r < rounds; r++ {
		g.id++
		id := g.id
		nc := 1 + g.rng.Intn(8)
		cols := []any{}
		for i := 0; i < nc; i++ {
			cols = append(cols, M{"name": fmt.Sprintf("c%d", i), "oid": 25})
		}
		prog := []any{}
		emptyCol := map[int]bool{}
		for i := 0; i < nc; i++ {
			emptyCol[i] = g.chance(0.2)
		}
		for i := 0; i < g.rng.Intn(10); i++ {
			cells := []any{}
			for j := 0; j < nc; j++ {
				switch {
				case g.chance(0.2):
					cells = append(cells, M{"c": "null", "nk": g.pick("nil", "ptr", "inv")})
				case emptyCol[j] && g.chance(0.4):
					cells = append(cells, M{"c": "empty"})
				default:
					cells = append(cells, M{"c": "v"})
				}
			}
			if g.chance(0.12) {
				// a row that is rejected (an unencodable value somewhere): nothing of it may reach the client,
				// and the rows after it arrive intact
				bad := make([]any, len(cells))
				copy(bad, cells)
				bad[g.rng.Intn(len(bad))] = M{"c": "bad"}
				prog = append(prog, M{"op": "row", "cells": bad})
			}
			prog = append(prog, M{"op": "row", "cells": cells})
		}
		prog = append(prog, M{"op": "complete", "tag": "SELECT"}, M{"op": "ret", "r": "nil"})
		st := M{"id": id, "cols": cols, "oids": []any{}, "anytype": true, "prog": prog}
		q := M{"id": id, "parse": "ok", "stmts": []any{st}}
		if g.chance(0.3) {
			steps = append(steps, send(M{"t": "Q", "q": q}))
			continue
		}
		pn := g.pick("", "", "p1")
		steps = append(steps, send(M{"t": "P", "name": "", "q": q, "noids": 0}),
			send(M{"t": "B", "portal": pn, "stmt": "", "pfmt": []any{}, "params": []any{}, "rfmt": g.codeList(nc)}))
		if g.chance(0.8) {
			steps = append(steps, send(M{"t": "D", "kind": "P", "name": pn}))
		}
		if g.chance(0.4) {
			// another portal of the same statement with result formats of its own, bound (and perhaps failing
			// to bind) in between: the first portal keeps the formats of its own Bind
			other := M{"t": "B", "portal": "p2", "stmt": g.pick("", "", "nosuch"), "pfmt": []any{}, "params": []any{}, "rfmt": g.codeList(nc)}
			steps = append(steps, send(other))
			if run.S(other, "stmt") == "nosuch" {
				steps = append(steps, send(M{"t": "S"}))
			}
		}
		steps = append(steps, send(M{"t": "E", "portal": pn, "max": g.maxRows()}), send(M{"t": "S"}))
	}
	cfg := baseCfg()
	cfg["limit"] = 1 << 20
	return M{"cfg": cfg, "steps": steps}
}

// behC03: streams of valid, surplus-carrying and truncated messages of every
// type: Parse with parameter OIDs the server does not read, Execute with a row
// limit, simple and extended cycles, COPY, unknown and stray messages, and
// (at the end, since they may end the connection) malformed ones.
func (g *gen) behC03() M {
	var b M
	switch g.rng.Intn(4) {
	case 0:
		b = g.behC05()
	case 1:
		b = g.behC06()
	case 2:
		b = g.behC13()
	default:
		b = g.behC07()
	}
	steps := b["steps"].([]any)
	// surplus fields: OIDs in Parse, a row limit in Execute
	for _, sv := range steps {
		m := run.AsM(run.AsM(sv)["m"])
		switch run.S(m, "t") {
		case "P":
			m["noids"] = g.rng.Intn(4)
		case "E":
			m["max"] = g.rng.Intn(1000)
		}
		delete(run.AsM(sv), "nowait")
	}
	if g.chance(0.4) {
		// messages that carry more than their fields: small ones (Sync, Flush, Close, Describe, Execute, CopyDone)
		// with kilobytes of surplus, as long as the size limit allows
		for _, sv := range steps {
			if m := run.AsM(run.AsM(sv)["m"]); m != nil && g.chance(0.15) {
				m["_pad"] = []int{1, 7, 100, 4000, 9999, 10001, 12000, 30000}[g.rng.Intn(8)]
			}
		}
	}
	if g.chance(0.35) {
		// a message over the size limit, of a known or an unknown type, with the conversation going on behind it:
		// skipped in full, wherever the segments happen to end
		steps = append(steps, send(M{"t": "Big", "ty": g.pick("Q", "P", "B", "U", "U", "d", "S"), "over": 1 + g.rng.Intn(300)}),
			send(M{"t": "S"}), send(M{"t": "Q", "q": g.trivialQ()}))
	}
	if g.chance(0.25) {
		// ... and inside COPY, where the handler stops reading at the first failure: the rest of the oversized
		// message is skipped all the same
		g.id++
		cst := M{"id": g.id, "cols": g.cols(1), "oids": []any{}, "prog": []any{M{"op": "copyin", "fmt": 0}, M{"op": "copyread", "onerr": "ret"}, M{"op": "copyread", "onerr": "ret"}, M{"op": "complete", "tag": "COPY"}, M{"op": "ret", "r": "nil"}}}
		steps = append(steps, send(M{"t": "Q", "q": M{"id": g.id, "parse": "ok", "stmts": []any{cst}}}), send(M{"t": "d"}),
			send(M{"t": "Big", "ty": g.pick("d", "d", "Q", "U"), "over": 1 + g.rng.Intn(500)}), send(M{"t": "c"}), send(M{"t": "S"}), send(M{"t": "Q", "q": g.trivialQ()}))
	}
	if g.chance(0.3) {
		steps = append(steps, send(M{"t": "Bad", "ty": g.pick("Q", "P", "B", "D", "E"), "cls": g.pick("nonul", "short", "count")}),
			send(M{"t": "Q", "q": g.trivialQ()}), send(M{"t": "S"}))
	}
	if g.chance(0.3) {
		// a refused SSL negotiation first: the startup packet may arrive in the same segment as the SSLRequest
		run.AsM(b["cfg"])["tls"] = g.pick("nil", "empty")
		steps = append([]any{send(M{"t": "SSLRequest", "stuffed": false})}, steps...)
	}
	b["steps"] = steps
	return b
}

// behC18: callbacks retain what they are given; then messages of every size
// around the 4 KiB granule and the limit follow: padded queries, Bind
// parameters, skipped oversized messages, COPY data.
func (g *gen) behC18() M {
	cfg := baseCfg()
	L := []int{4096, 4097, 5000, 8192, 12000}[g.rng.Intn(5)]
	cfg["limit"] = L
	cfg["auth"] = "clear"
	cfg["mw"] = []any{"ok"}
	kvs := []any{M{"k": "user", "v": g.text(20)}, M{"k": "database", "v": g.text(20)}, M{"k": "application_name", "v": g.text(100)}}
	if g.chance(0.3) {
		kvs = []any{kvs[0], kvs[2]} // no database named: what the callbacks were given stays what the client sent
	} else if g.chance(0.2) {
		kvs[1] = M{"k": "database", "v": ""}
	}
	steps := []any{send(M{"t": "Startup", "term": true, "kvs": kvs}), send(M{"t": "p", "pw": "good"})}
	sizes := []int{1, 2, 100, 4090, 4095, 4096, 4097, L - 1, L, L / 2}
	for i := range sizes {
		if sizes[i] > L { // everything here fits the limit (oversized messages are sent as such, see "Big")
			sizes[i] = L
		}
	}
	n := 2 + g.rng.Intn(10)
	if g.chance(0.3) {
		// a short session of small messages followed by another connection on the same server: what the
		// first one's callbacks retained outlives its connection
		for i := 0; i < 1+g.rng.Intn(3); i++ {
			q := g.trivialQ()
			q["pad"] = 20 + g.rng.Intn(200)
			steps = append(steps, send(M{"t": "Q", "q": q}))
		}
		return M{"cfg": cfg, "steps": steps, "probe": true}
	}
	for i := 0; i < n; i++ {
		switch g.rng.Intn(6) {
		case 0, 1:
			q := g.trivialQ()
			if run.I(q, "id") < 1000 {
				q["pad"] = sizes[g.rng.Intn(len(sizes))]
			}
			steps = append(steps, send(M{"t": "Q", "q": q}))
		case 2:
			if g.chance(0.4) {
				// a Parse the parser rejects, with the rest of its batch: the rejected text is kept like any other
				g.id++
				q := M{"id": g.id, "parse": "err", "perr": g.simpleErr(), "stmts": []any{}, "pad": 30 + g.rng.Intn(200)}
				steps = append(steps, send(M{"t": "P", "name": "", "q": q, "noids": 0}),
					send(M{"t": "B", "portal": "", "stmt": "", "pfmt": []any{}, "params": []any{M{"null": false, "_hex": hex.EncodeToString([]byte(g.text(40)))}}, "rfmt": []any{}}),
					send(M{"t": "E", "portal": "", "max": 0}), send(M{"t": "S"}))
				continue
			}
			steps = append(steps, send(M{"t": "Big", "ty": g.pick("Q", "d", "U"), "over": []int{1, 100, L, 2*L + 7}[g.rng.Intn(4)]}))
		case 3:
			// extended: parameters of various sizes
			g.id++
			st := M{"id": g.id, "cols": []any{}, "oids": []any{}, "prog": []any{M{"op": "complete", "tag": "OK"}, M{"op": "ret", "r": "nil"}}}
			fails := g.chance(0.3)
			if fails {
				// the statement function fails: whatever the library does about a failed Execute (reporting, logging),
				// the values handed out stay as they were
				st["prog"] = []any{M{"op": "ret", "r": "err", "err": g.simpleErr()}}
			}
			params := []any{}
			np := 1 + g.rng.Intn(3)
			for j := 0; j < np; j++ {
				sz := sizes[g.rng.Intn(len(sizes))] / 2
				if fails && g.chance(0.7) {
					sz = []int{63, 64, 65, 66, 67, 100, 200}[g.rng.Intn(7)]
				}
				if max := (L - 64) / np; sz > max { // the Bind message itself must fit the limit
					sz = max
				}
				b := make([]byte, sz)
				g.rng.Read(b)
				params = append(params, M{"null": false, "_hex": hex.EncodeToString(b)})
			}
			pn := g.pick("", "p1")
			pf := []any{1}
			if fails {
				pf = []any{[]any{}, []any{0}, []any{1}}[g.rng.Intn(3)].([]any) // text or binary parameters
			}
			steps = append(steps, send(M{"t": "P", "name": "", "q": M{"id": g.id, "parse": "ok", "stmts": []any{st}}, "noids": 0}),
				send(M{"t": "B", "portal": pn, "stmt": "", "pfmt": pf, "params": params, "rfmt": []any{}}),
				send(M{"t": "E", "portal": pn, "max": g.maxRows()}))
			if g.chance(0.5) {
				// the portal is closed afterwards: what its statement function was given stays as it was
				steps = append(steps, send(M{"t": "C", "kind": "P", "name": pn}))
			}
			steps = append(steps, send(M{"t": "S"}))
		default:
			// COPY with chunks of various sizes
			g.id++
			prog := []any{M{"op": "copyin", "fmt": 0}}
			k := 1 + g.rng.Intn(4)
			for j := 0; j < k+1; j++ {
				prog = append(prog, M{"op": "copyread", "onerr": "ret"})
			}
			prog = append(prog, M{"op": "complete", "tag": "COPY"}, M{"op": "ret", "r": "nil"})
			st := M{"id": g.id, "cols": g.cols(1), "oids": []any{}, "prog": prog}
			steps = append(steps, send(M{"t": "Q", "q": M{"id": g.id, "parse": "ok", "stmts": []any{st}}}))
			for j := 0; j < k; j++ {
				b := make([]byte, sizes[g.rng.Intn(len(sizes))])
				g.rng.Read(b)
				steps = append(steps, send(M{"t": "d", "_hex": hex.EncodeToString(b)}))
			}
			steps = append(steps, send(M{"t": "c"}))
		}
	}
	steps = append(steps, send(M{"t": "Q", "q": g.trivialQ()}))
	return M{"cfg": cfg, "steps": steps}
}

// behC11: whole sessions (simple, extended, COPY) run inside the TLS session,
// or in plaintext after 'N'; SSLRequest with or without stuffed plaintext.
func (g *gen) behC11() M {
	var b M
	switch g.rng.Intn(4) {
	case 0:
		b = g.behC05()
	case 1:
		b = g.behC06()
	case 2:
		// the message-size limit is the configured one inside TLS too: messages just under, at and over it
		b = g.behC10()
	default:
		b = g.behC13()
	}
	cfg := run.AsM(b["cfg"])
	steps := b["steps"].([]any)
	for _, sv := range steps {
		delete(run.AsM(sv), "nowait")
	}
	switch g.rng.Intn(5) {
	case 0:
		cfg["tls"] = g.pick("nil", "empty")
		steps = append([]any{send(M{"t": "SSLRequest", "stuffed": false})}, steps...)
	case 1:
		cfg["tls"] = "cert" // certificates configured, the client does not ask for TLS
	default:
		cfg["tls"] = "cert"
		// (plaintext stuffed behind the SSLRequest is only generated with a read buffer that takes all of it in:
		// with a tiny buffer part of it stays on the socket and is, rightly, taken for a broken TLS handshake)
		stuffed := g.chance(0.3) && run.I(cfg, "limit") >= 4096
		steps = append([]any{send(M{"t": "SSLRequest", "stuffed": stuffed}), M{"k": "tls"}}, steps...)
	}
	b["steps"] = steps
	return b
}

// behC04F: a valid session with the transport starting to fail at the k-th
// read, the k-th write or after n bytes.
func (g *gen) behC04F() M {
	var b M
	switch g.rng.Intn(3) {
	case 0:
		b = g.behC05()
	case 1:
		b = g.behC06()
	default:
		b = g.behC13()
	}
	steps := b["steps"].([]any)
	for _, sv := range steps {
		delete(run.AsM(sv), "nowait")
	}
	pos := g.rng.Intn(len(steps) + 1)
	fault := M{"k": "fault", "on": g.pick("read", "write", "bytes"), "after": g.rng.Intn(12)}
	if fault["on"] == "bytes" {
		fault["after"] = g.rng.Intn(200)
	}
	steps = append(steps[:pos:pos], append([]any{fault}, steps[pos:]...)...)
	b["steps"] = steps
	b["probe"] = true
	return b
}
