package run

import (
	"context"
	"errors"

	wire "github.com/jeroenrinzema/psql-wire"
	"github.com/jeroenrinzema/psql-wire/pkg/buffer"
)

// User-supplied statement and portal caches (options Statements / Portals):
// every call the library makes on them is recorded; the storage itself is the
// library's default implementation, so that the conversation is the same as
// without them and only the calls are added to the recording.

// nameCloser is what a cache that supports Close looks like (declared here so that the harness does not
// depend on the library exporting a name for it).
type nameCloser interface {
	Close(ctx context.Context, name string) error
}

var errCache = errors.New("the cache is not available")

type recStatements struct {
	x     *Exec
	inner wire.StatementCache
}

func (c *recStatements) Set(ctx context.Context, name string, stmt *wire.PreparedStatement) error {
	c.x.cb(ctx, M{"name": "st.set", "key": name})
	if name == "xset" {
		return errCache // a cache may refuse
	}
	return c.inner.Set(ctx, name, stmt)
}

func (c *recStatements) Get(ctx context.Context, name string) (*wire.Statement, error) {
	if name == "xget" {
		c.x.cb(ctx, M{"name": "st.get", "key": name, "hit": false})
		return nil, errCache // ... or fail outright (its backing store is gone, say)
	}
	st, err := c.inner.Get(ctx, name)
	c.x.cb(ctx, M{"name": "st.get", "key": name, "hit": st != nil && err == nil})
	return st, err
}

func (c *recStatements) Close(ctx context.Context, name string) error {
	c.x.cb(ctx, M{"name": "st.close", "key": name})
	if cl, ok := c.inner.(nameCloser); ok {
		return cl.Close(ctx, name)
	}
	return nil
}

type recPortals struct {
	x     *Exec
	inner wire.PortalCache
}

func (c *recPortals) Bind(ctx context.Context, name string, stmt *wire.Statement, params []wire.Parameter, formats []wire.FormatCode) error {
	c.x.cb(ctx, M{"name": "po.bind", "key": name})
	if name == "xbind" {
		return errCache
	}
	return c.inner.Bind(ctx, name, stmt, params, formats)
}

func (c *recPortals) Get(ctx context.Context, name string) (*wire.Portal, error) {
	if name == "xget" {
		c.x.cb(ctx, M{"name": "po.get", "key": name, "hit": false})
		return nil, errCache
	}
	p, err := c.inner.Get(ctx, name)
	c.x.cb(ctx, M{"name": "po.get", "key": name, "hit": p != nil && err == nil})
	return p, err
}

func (c *recPortals) Execute(ctx context.Context, name string, reader *buffer.Reader, writer *buffer.Writer) error {
	c.x.cb(ctx, M{"name": "po.exec", "key": name})
	return c.inner.Execute(ctx, name, reader, writer)
}

func (c *recPortals) Close(ctx context.Context, name string) error {
	c.x.cb(ctx, M{"name": "po.close", "key": name})
	if cl, ok := c.inner.(nameCloser); ok {
		return cl.Close(ctx, name)
	}
	return nil
}
