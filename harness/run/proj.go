package run

// Per-property projections (DESIGN.md 3.4): a projection keeps the fields its
// property constrains. The specification always states everything it knows and
// an observed record is compared on the fields both carry, so a dropped field
// is simply not judged by that property's check.

type fieldSet map[string]bool

func fs(names ...string) fieldSet {
	s := fieldSet{}
	for _, n := range names {
		s[n] = true
	}
	return s
}

func keepFields(r M, s fieldSet) M {
	out := M{}
	for k, v := range r {
		if s[k] {
			out[k] = v
		}
	}
	return out
}

// Projection describes what a property looks at.
type Projection struct {
	SkipPreamble bool                // the property does not judge startup/auth/parameters (preamble rule)
	Global       bool                // keep the "global parameter map after the run" event
	Wire         bool                // keep the raw-wire facts of a TLS session (every server write is TLS records)
	Alloc        bool                // measure and keep the allocation caused by every hostile message
	Intact       bool                // keep the "everything retained is intact" event
	Recv         map[string]fieldSet // per backend message type; "*" = default
	Cb           map[string]fieldSet // per callback name; "*" = default
	CtxKeys      fieldSet            // which keys of a callback's ctx record are kept (nil = all)
}

func (p *Projection) KeepRecv(r M) M {
	if p == nil {
		return r
	}
	t := S(r, "t")
	s, ok := p.Recv[t]
	if !ok {
		s, ok = p.Recv["*"]
		if !ok {
			return r
		}
	}
	out := keepFields(r, s)
	out["t"] = r["t"]
	return out
}

func (p *Projection) KeepCb(c M) M {
	if p == nil {
		return c
	}
	n := S(c, "name")
	s, ok := p.Cb[n]
	if !ok {
		s, ok = p.Cb["*"]
		if !ok {
			return c
		}
	}
	out := keepFields(c, s)
	out["name"] = c["name"]
	return out
}

var kinds = fs("t")

// Projections by property id. Missing id = full records.
var Projections = map[string]*Projection{
	// reply kinds and order, command tag, row count facts, DataWriter returns and Written()
	"C05": {SkipPreamble: true, Recv: map[string]fieldSet{"*": kinds, "C": fs("tag"), "D": fs("n"), "T": fs("n")},
		Cb: map[string]fieldSet{"*": fs("ret", "written", "q", "def", "si", "wcols")}},
	// reply kinds only; which callbacks run
	"C06": {SkipPreamble: true, Recv: map[string]fieldSet{"*": kinds},
		Cb: map[string]fieldSet{"*": fs("q", "def")}},
	// which definition ran with which parameters; describe replies
	"C07": {SkipPreamble: true, Recv: map[string]fieldSet{"*": kinds, "T": fs("n", "fmts", "names"), "t": fs("n")},
		Cb: map[string]fieldSet{"*": fs("q", "def", "si", "params", "key", "hit", "wcols")}},
	"C08": {SkipPreamble: true, Recv: map[string]fieldSet{"*": kinds, "T": fs("n", "fmts", "oids"), "t": fs("n", "oids"), "D": fs("n", "cells")},
		Cb: map[string]fieldSet{"*": fs("q", "def", "si", "params")}},
	"C01": {Recv: map[string]fieldSet{"*": kinds, "R": fs("code"), "E": fs("cls")},
		Cb: map[string]fieldSet{"*": fs("q", "def", "ret", "db", "user", "pw", "i", "authv")}},
	"C12": {Global: true, Recv: map[string]fieldSet{"*": kinds, "R": fs("code"), "S": fs("key", "val"), "Z": fs("st"), "ssl": fs("b")},
		Cb: map[string]fieldSet{"*": fs("q", "def", "ret", "cp", "sp", "i", "db", "user", "au", "su", "authv")}},
	"C13": {SkipPreamble: true, Recv: map[string]fieldSet{"*": kinds, "G": fs("fmt", "n", "fmts")},
		Cb: map[string]fieldSet{"*": fs("q", "def", "si", "ret", "dig", "rcols", "wcols")}},
	"C17": {SkipPreamble: true, Recv: map[string]fieldSet{"*": kinds, "E": fs("wf", "dup", "sev", "code", "msg", "hint", "detail", "cons", "file", "line", "fn", "src", "hasmsg")},
		Cb: map[string]fieldSet{"*": fs("q", "def")}},
	"C19": {Recv: map[string]fieldSet{"*": kinds},
		Cb: map[string]fieldSet{"*": fs("q", "def", "si", "i", "mw", "cp", "sp", "addr", "tm", "live", "prevdone", "au", "su", "authv")}},
	// the grammar of every backend message: structural facts only
	"C02": {Recv: map[string]fieldSet{"*": fs("known", "decl", "items", "parsed", "trail", "dup", "term", "mand", "st", "b", "partial", "badframe")},
		Cb: map[string]fieldSet{"*": fs()}},
	"C10": {SkipPreamble: true, Recv: map[string]fieldSet{"*": kinds, "E": fs("code", "fatal")},
		Cb: map[string]fieldSet{"*": fs("q", "def")}},
	// oversized / undersized messages during startup and authentication: the preamble is the subject
	"C10pre": {Recv: map[string]fieldSet{"*": kinds, "E": fs("code", "fatal")},
		Cb: map[string]fieldSet{"*": fs("q", "def")}},
	// transcript identity under segmentation: kinds, row/field counts, tags, SQLSTATE, callbacks with results
	"C03": {SkipPreamble: true, Recv: map[string]fieldSet{"*": kinds, "C": fs("tag"), "D": fs("n", "rawdig"), "T": fs("n", "names"), "E": fs("code", "msg"), "G": fs("fmt", "n")},
		Cb: map[string]fieldSet{"*": fs("q", "def", "si", "ret", "written", "dig", "params")}},
	// retention: only whether everything handed to callbacks so far is intact
	"C18": {Intact: true, Recv: map[string]fieldSet{"*": kinds},
		Cb: map[string]fieldSet{"*": fs("q", "def", "intact", "ret")}},
	// TLS upgrade: reply kinds inside and outside the TLS session, raw-wire facts, callbacks
	"C11": {Wire: true, Global: true, Recv: map[string]fieldSet{"*": kinds, "ssl": fs("b"), "R": fs("code")},
		Cb: map[string]fieldSet{"*": fs("q", "def")}},
	// isolation: everything a connection sees and everything its callbacks see, except row payload encodings
	"C15": {Recv: map[string]fieldSet{"*": kinds, "S": fs("key", "val"), "T": fs("n", "names", "oids", "tables", "attrs"), "D": fs("n", "cells"), "C": fs("tag"), "R": fs("code")},
		Cb: map[string]fieldSet{"*": fs("q", "def", "si", "params", "ret", "written", "cp", "sp", "mw", "i", "intact", "db", "user", "pw", "wcols", "au", "su", "authv")}},
	// robustness: reply kinds, which callbacks ran, allocation per hostile message
	"C04": {Alloc: true, Recv: map[string]fieldSet{"*": kinds, "R": fs("code"), "ssl": fs("b")},
		Cb: map[string]fieldSet{"*": fs("q", "def", "ret")}},
	"C20": {SkipPreamble: true, Recv: map[string]fieldSet{"*": kinds, "t": fs("n", "wf")},
		Cb: map[string]fieldSet{"*": fs("q", "def")}},
	"C09": {SkipPreamble: true, Recv: map[string]fieldSet{"*": kinds, "T": fs("n", "oids", "fmts"), "D": fs("n", "cells")},
		Cb: map[string]fieldSet{"*": fs("q", "def", "ret", "written")}},
}
