package run

import (
	"crypto/ecdsa"
	"crypto/elliptic"
	"crypto/rand"
	"crypto/tls"
	"crypto/x509"
	"crypto/x509/pkix"
	"math/big"
	"strings"
	"time"

	"verif/harness/mem"
	"verif/harness/pgw"
)

// Clean deep-copies v dropping every map key that starts with "_".
func Clean(v any) any {
	switch x := v.(type) {
	case map[string]any:
		out := make(map[string]any, len(x))
		for k, e := range x {
			if strings.HasPrefix(k, "_") {
				continue
			}
			out[k] = Clean(e)
		}
		return out
	case []any:
		out := make([]any, len(x))
		for i, e := range x {
			out[i] = Clean(e)
		}
		return out
	case []M:
		out := make([]any, len(x))
		for i, e := range x {
			out[i] = Clean(e)
		}
		return out
	}
	return v
}

// CellCanon is the canonical rendering of a received DataRow field of the
// given type in the given format, decoded by the harness's own decoders.
var CellCanon func(oid int, format int, raw []byte) string

// Projector turns the raw event log of one connection into the abstract
// trace of the specification: the server's byte stream is framed and decoded
// strictly; everything else is passed through.
type Projector struct {
	sawCancel bool
	Conn      int
	stream    []byte
	sslWait   int // single-byte SSL replies still expected
	encSeen   map[string]bool
	lastCols  []any // oids of the last RowDescription (for decoding rows)
	lastFmts  []any
	ColOids   func() []int // optional: column oids of the running statement (extended protocol without Describe)
	Proj      *Projection
	SkipPre   bool // replace the startup/auth/parameter preamble by one synthetic event (preamble rule)
	preDone   bool
	preMsg    M
	held      []mem.Ev
	// extended-protocol bookkeeping for decoding rows (valid when Parse/Bind/Execute are not pipelined)
	stmtCols map[string][]any
	portals  map[string][2][]any
	pendP    *[2]any
	pendB    *[3]any
	Out      []M
	TLS      bool           // after 'S': the raw stream is TLS records; protocol messages come from the TLS client
	Plain    map[int][]byte // server Write index -> plaintext the TLS client decrypted from it
}

// Feed consumes one raw event.
func (p *Projector) Feed(e mem.Ev) {
	if c, has := e["conn"]; has && AsInt(c) != p.Conn && p.Conn != 0 {
		return
	}
	if e["k"] == "send" && S(AsM(e["m"]), "t") == "Cancel" {
		p.sawCancel = true
	}
	if e["k"] == "cb" && S(AsM(e["c"]), "name") == "closeconn" && !p.sawCancel {
		return // the close hook is judged only on connections that carried a CancelRequest
	}
	if e["k"] == "x-global" && p.Proj != nil && !p.Proj.Global {
		return
	}
	if e["k"] == "x-alloc" {
		if p.Proj != nil && p.Proj.Alloc {
			p.Out = append(p.Out, M{"k": "x-alloc", "bytes": e["bytes"], "sent": e["sent"], "limit": e["limit"]})
		}
		return
	}
	if e["k"] == "x-intact" {
		if p.Proj != nil && p.Proj.Intact {
			p.Out = append(p.Out, M{"k": "x-intact", "ok": e["ok"]})
		}
		return
	}
	if e["k"] == "x-parseparams" {
		p.Out = append(p.Out, M{"k": "x-parseparams", "toks": Clean(e["toks"]), "n": e["n"], "allzero": e["allzero"]})
		return
	}
	if p.SkipPre && !p.preDone {
		switch e["k"] {
		case "send":
			if m := AsM(e["m"]); S(m, "t") == "Startup" && p.preMsg == nil {
				p.preMsg = m
			} else if (S(m, "t") == "SSLRequest" || S(m, "t") == "GSSENC") && p.preMsg == nil {
				p.encRequest(S(m, "t")) // part of the preamble: its one-byte answer is not a protocol message
			} else {
				p.held = append(p.held, e) // pipelined behind the startup packet: belongs after the preamble
			}
		case "eof":
			p.held = append(p.held, e)
		case "write":
			before := len(p.Out)
			p.bytes(e["b"].([]byte))
			for _, o := range p.Out[before:] {
				if o["k"] == "recv" && S(AsM(o["m"]), "t") == "Z" && p.preMsg != nil {
					p.preDone = true
				}
			}
			p.Out = p.Out[:before]
			if p.preDone {
				p.Out = append(p.Out, M{"k": "preamble", "m": Clean(p.preMsg)})
				held := p.held
				p.held = nil
				for _, h := range held {
					p.Feed(h)
				}
			}
		}
		return
	}
	switch e["k"] {
	case "send":
		m := AsM(e["m"])
		switch S(m, "t") {
		case "SSLRequest", "GSSENC":
			p.encRequest(S(m, "t"))
		case "P":
			var oids []any
			if sts := L(Sub(m, "q"), "stmts"); len(sts) == 1 {
				for _, cv := range L(AsM(sts[0]), "cols") {
					oids = append(oids, I(AsM(cv), "oid"))
				}
			}
			p.pendP = &[2]any{S(m, "name"), oids}
		case "B":
			p.pendB = &[3]any{S(m, "portal"), S(m, "stmt"), L(m, "rfmt")}
		case "E":
			if pt, ok := p.portals[S(m, "portal")]; ok {
				oids, codes := pt[0], pt[1]
				fmts := make([]any, len(oids))
				for i := range oids {
					f := 0
					if len(codes) == 1 {
						f = AsInt(codes[0])
					} else if i < len(codes) {
						f = AsInt(codes[i])
					}
					fmts[i] = f
				}
				p.lastCols, p.lastFmts = oids, fmts
			}
		}
		p.Out = append(p.Out, M{"k": "send", "m": Clean(m)})
	case "write":
		if p.TLS {
			// everything after 'S' must be TLS records; the protocol messages are what the TLS client found inside
			if p.Proj != nil && p.Proj.Wire {
				p.Out = append(p.Out, M{"k": "wire", "rec": tlsRecords(e["b"].([]byte))})
			}
			if pt := p.Plain[AsInt(e["wi"])]; len(pt) > 0 {
				p.TLS = false
				p.bytes(pt)
				p.TLS = true
			}
			return
		}
		p.bytes(e["b"].([]byte))
	case "tls", "tlsfail":
		p.Out = append(p.Out, M{"k": e["k"]})
	case "cb":
		p.Out = append(p.Out, M{"k": "cb", "c": p.Proj.KeepCb(AsM(e["c"]))})
	case "idle":
		p.Out = append(p.Out, M{"k": "idle"})
	case "close":
		p.flushPartial()
		p.Out = append(p.Out, M{"k": "close"})
	case "eof":
		p.Out = append(p.Out, M{"k": "eof"})
	case "fault":
		p.Out = append(p.Out, M{"k": "fault", "on": e["on"]})
	case "wedged":
		p.Out = append(p.Out, M{"k": "wedged"})
	case "crash":
		p.Out = append(p.Out, M{"k": "crash", "what": e["what"]})
	default:
		if strings.HasPrefix(e["k"].(string), "x-") {
			c := M{}
			for k, v := range e {
				if k != "seq" && k != "conn" {
					c[k] = v
				}
			}
			p.Out = append(p.Out, c)
		}
	}
}

// encRequest: the client asked for an encrypted transport; the answer is one byte outside the message grammar.
// For the grammar property (C02) there is ONE such byte per kind of request on a connection: whatever else the
// server sends has to be a backend message.
func (p *Projector) encRequest(kind string) {
	if p.Proj != nil && p.Proj.Recv["*"] != nil && p.Proj.Recv["*"]["known"] {
		if p.encSeen == nil {
			p.encSeen = map[string]bool{}
		}
		if p.encSeen[kind] {
			return
		}
		p.encSeen[kind] = true
	}
	p.sslWait++
}

func (p *Projector) bytes(b []byte) {
	if p.TLS {
		return
	}
	for p.sslWait > 0 && len(b) > 0 && len(p.stream) == 0 {
		p.sslWait--
		p.Out = append(p.Out, M{"k": "recv", "m": M{"t": "ssl", "b": string(b[:1])}})
		if b[0] == 'S' {
			// from here on the raw stream is the TLS session
			p.TLS = true
			if len(b) > 1 && p.Proj != nil && p.Proj.Wire {
				p.Out = append(p.Out, M{"k": "wire", "rec": tlsRecords(b[1:])})
			}
			return
		}
		b = b[1:]
	}
	if len(b) == 0 {
		return
	}
	p.stream = append(p.stream, b...)
	msgs, rest, bad := pgw.Frame(p.stream)
	for _, m := range msgs {
		p.Out = append(p.Out, M{"k": "recv", "m": p.abstract(m)})
	}
	p.stream = append([]byte{}, rest...)
	if bad {
		p.Out = append(p.Out, M{"k": "recv", "m": M{"t": "?", "wf": false, "badframe": true}})
		p.stream = nil
	}
}

func (p *Projector) flushPartial() {
	if len(p.stream) > 0 {
		p.Out = append(p.Out, M{"k": "recv", "m": M{"t": "?", "wf": false, "partial": len(p.stream)}})
		p.stream = nil
	}
}

// Finish flushes a trailing partial frame.
func (p *Projector) Finish() {
	if p.SkipPre && !p.preDone {
		if p.preMsg != nil { // a session was attempted and never became ready
			p.Out = append(p.Out, M{"k": "dead"})
		}
		return
	}
	p.flushPartial()
}

func fatalSev(s string) bool { return s == "FATAL" || s == "PANIC" }

func (p *Projector) abstract(m pgw.Msg) M {
	r := pgw.Decode(m)
	switch m.Type {
	case '1':
		if p.pendP != nil {
			if p.stmtCols == nil {
				p.stmtCols = map[string][]any{}
			}
			oids, _ := p.pendP[1].([]any)
			p.stmtCols[p.pendP[0].(string)] = oids
			p.pendP = nil
		}
	case '2':
		if p.pendB != nil {
			if p.portals == nil {
				p.portals = map[string][2][]any{}
			}
			codes, _ := p.pendB[2].([]any)
			p.portals[p.pendB[0].(string)] = [2][]any{p.stmtCols[p.pendB[1].(string)], codes}
			p.pendB = nil
		}
	case 'T':
		p.lastCols, _ = r["oids"].([]any)
		p.lastFmts, _ = r["fmts"].([]any)
	case 'D':
		raws, _ := r["_raw"].([][]byte)
		cells, _ := r["cells"].([]any)
		out := make([]any, len(cells))
		for i, cv := range cells {
			c := AsM(cv)
			if B(c, "null") {
				out[i] = M{"null": true}
				continue
			}
			oid, f := 25, 0
			if i < len(p.lastCols) {
				oid = AsInt(p.lastCols[i])
			}
			if i < len(p.lastFmts) {
				f = AsInt(p.lastFmts[i])
			}
			canon, enc := DecodeCell(oid, f, raws[i])
			out[i] = M{"null": false, "empty": I(c, "len") == 0, "val": canon, "enc": enc}
		}
		r["cells"] = out
		// digest of the raw field bytes (independent of any knowledge about formats)
		var all []byte
		for _, raw := range raws {
			all = append(all, byte(len(raw)>>8), byte(len(raw)))
			if raw == nil {
				all = append(all, 0xff)
			}
			all = append(all, raw...)
		}
		r["rawdig"] = pgw.Dig(all)
	case 'E', 'N':
		// which parts of a source location are present: it is set (and sent) as a whole
		nsrc := 0
		for _, f := range []string{"file", "line", "fn"} {
			if _, has := r[f]; has {
				nsrc++
			}
		}
		r["src"] = []string{"none", "part", "part", "all"}[nsrc]
		_, r["hasmsg"] = r["msg"]
		for _, f := range []string{"sev", "code", "msg", "hint", "detail", "cons", "file", "line", "fn"} {
			if _, has := r[f]; !has {
				r[f] = ""
			}
		}
		code := S(r, "code")
		if len(code) >= 2 {
			r["cls"] = code[:2]
		} else {
			r["cls"] = code
		}
		r["fatal"] = fatalSev(S(r, "sev"))
		delete(r, "fields")
		delete(r, "sevv")
	}
	delete(r, "_raw")
	delete(r, "trailing")
	if p.Proj == nil || p.Proj.Recv["*"] == nil || !p.Proj.Recv["*"]["known"] {
		for _, f := range []string{"known", "decl", "items", "parsed", "trail", "term", "mand"} {
			delete(r, f)
		}
	}
	return p.Proj.KeepRecv(r)
}

// tlsRecords reports whether b is a sequence of complete TLS records.
func tlsRecords(b []byte) bool {
	for len(b) > 0 {
		if len(b) < 5 || b[0] < 20 || b[0] > 23 || b[1] != 3 || b[2] > 4 {
			return false
		}
		n := int(b[3])<<8 | int(b[4])
		if n > 16384+2048 || len(b) < 5+n {
			return false
		}
		b = b[5+n:]
	}
	return true
}

// SetFormats tells the projector which result formats apply to the rows that
// follow when no RowDescription announces them (Execute without Describe).
func (p *Projector) SetFormats(oids []any, fmts []any) {
	p.lastCols, p.lastFmts = oids, fmts
}

// SelfSigned generates a throw-away certificate.
func SelfSigned() (tls.Certificate, error) {
	key, err := ecdsa.GenerateKey(elliptic.P256(), rand.Reader)
	if err != nil {
		return tls.Certificate{}, err
	}
	tmpl := &x509.Certificate{SerialNumber: big.NewInt(1), Subject: pkix.Name{CommonName: "verif"},
		NotBefore: time.Now().Add(-time.Hour), NotAfter: time.Now().Add(time.Hour),
		KeyUsage: x509.KeyUsageDigitalSignature, ExtKeyUsage: []x509.ExtKeyUsage{x509.ExtKeyUsageServerAuth},
		DNSNames: []string{"verif"}}
	der, err := x509.CreateCertificate(rand.Reader, tmpl, tmpl, &key.PublicKey, key)
	if err != nil {
		return tls.Certificate{}, err
	}
	return tls.Certificate{Certificate: [][]byte{der}, PrivateKey: key}, nil
}
