package run

import (
	"errors"

	"github.com/jeroenrinzema/psql-wire/pkg/buffer"
	"github.com/jeroenrinzema/psql-wire/pkg/types"

	"verif/harness/pgw"
)

// failingSink accepts writes until its failAt-th Write (then fails, taking nothing).
type failingSink struct {
	buf    []byte
	writes int
	failAt int
}

func (s *failingSink) Write(p []byte) (int, error) {
	s.writes++
	if s.failAt != 0 && s.writes >= s.failAt {
		return 0, errors.New("sink failed")
	}
	s.buf = append(s.buf, p...)
	return len(p), nil
}

// PlayWriter replays an operation sequence on the real buffer.Writer through
// its public API and records what is observable after every operation.
func PlayWriter(beh M) []M {
	sink := &failingSink{failAt: I(beh, "fail")}
	w := buffer.NewWriter(quietLogger(), sink)
	out := []M{{"k": "wcfg", "fail": I(beh, "fail")}}
	for _, ov := range L(beh, "ops") {
		op := AsM(ov)
		ev := M{"k": "wop", "op": S(op, "op")}
		switch S(op, "op") {
		case "start":
			w.Start(types.ServerMessage(S(op, "t")[0]))
			ev["t"] = S(op, "t")
		case "add":
			n := I(op, "n")
			ev["n"] = n
			switch S(op, "kind") {
			case "byte":
				w.AddByte('x')
			case "int16":
				w.AddInt16(-2)
			case "int32":
				w.AddInt32(-3)
			case "nul":
				w.AddNullTerminate()
			case "string":
				w.AddString("abcdefghijklmnopqrstuvwxyz"[:n])
			default:
				w.AddBytes(make([]byte, n))
			}
		case "end":
			err := w.End()
			ev["ret"] = retClass(err)
		case "reset":
			w.Reset()
		}
		ev["flen"] = len(w.Bytes())
		msgs, rest, bad := pgw.Frame(sink.buf)
		ev["sunk"] = len(msgs)
		ev["clean"] = len(rest) == 0 && !bad
		ev["lastt"], ev["lastlen"] = "-", 0
		if n := len(msgs); n > 0 {
			ev["lastt"] = string([]byte{msgs[n-1].Type})
			ev["lastlen"] = len(msgs[n-1].Body) + 4
		}
		out = append(out, ev)
	}
	return out
}
