package run

import (
	"bytes"
	"context"
	"fmt"
	"net"
	"reflect"
	"runtime"
	"strconv"
	"strings"
	"sync"
	"time"

	wire "github.com/jeroenrinzema/psql-wire"

	"verif/harness/mem"
	"verif/harness/pgw"
)

// Sched replays a TLC-generated interleaving of PgServer actions on real
// goroutines. Every hook point of the implementation (build tag verif) and a
// gate inside the scripted statement function park the calling goroutine
// until the schedule releases it. Arrivals are logged, in the order they
// really happen, under the log's mutex.

type park struct {
	point   string
	release chan struct{}
}

type Sched struct {
	x           *Exec
	mu          sync.Mutex
	cond        *sync.Cond
	byGoid      map[int64]string
	parked      map[string]*park // actor -> where it is parked now
	arrived     map[string]int   // actor -> number of arrivals so far
	finished    map[string]bool  // actor -> its goroutine has ended (Close returned or panicked)
	free        bool             // schedule over: every hook passes through
	all         []*park
	StepTimeout time.Duration
	OnlyPark    map[string]bool         // when set: only these points park; the others pass through
	mapIDs      map[string]int          // type map identity -> small id
	MapsOf      map[string]map[int]bool // actor -> ids of the type maps it encoded with
	PartsOf     map[string]map[int]bool // actor -> ids of the internal tables of those maps
	ParkOnce    map[string]string       // actor -> a point at which it parks once more (then the entry is removed)
	keepAlive   []any
	Pass        map[string]bool   // points that never park (and are not logged)
	Rename      map[string]string // point -> the name under which an arrival there is logged
}

func goid() int64 {
	var buf [64]byte
	n := runtime.Stack(buf[:], false)
	// "goroutine 123 [running]:..."
	f := bytes.Fields(buf[:n])
	if len(f) < 2 {
		return -1
	}
	id, _ := strconv.ParseInt(string(f[1]), 10, 64)
	return id
}

func NewSched(x *Exec) *Sched {
	s := &Sched{x: x, byGoid: map[int64]string{}, parked: map[string]*park{}, arrived: map[string]int{}, finished: map[string]bool{}, StepTimeout: 2 * time.Second}
	s.cond = sync.NewCond(&s.mu)
	return s
}

// Hook is installed with wire.SetVerifHook.
func (s *Sched) Hook(point string, subject any) {
	g := goid()
	s.mu.Lock()
	actor, known := s.byGoid[g]
	if c, ok := subject.(net.Conn); ok {
		if a, ok := c.RemoteAddr().(mem.Addr); ok {
			actor = fmt.Sprintf("c%d", a.ID)
			s.byGoid[g] = actor
			known = true
		}
	}
	if s.free {
		// the schedule is over: nothing parks any more, but which type map a connection encodes with is still noted
		if known && point == "encode.enter" && s.OnlyPark != nil {
			s.noteMap(actor, subject)
		}
		s.mu.Unlock()
		return
	}
	if !known {
		// a goroutine the schedule does not control (e.g. Stop at the end)
		s.mu.Unlock()
		return
	}
	if s.Pass[point] {
		s.mu.Unlock()
		return
	}
	if r, ok := s.Rename[point]; ok {
		point = r
	}
	if s.OnlyPark != nil && !s.OnlyPark[point] && s.ParkOnce[actor] == point {
		delete(s.ParkOnce, actor) // park here, this once
	} else if s.OnlyPark != nil && !s.OnlyPark[point] {
		if point == "encode.enter" {
			s.noteMap(actor, subject)
		}
		s.mu.Unlock()
		return
	}
	p := &park{point: point, release: make(chan struct{})}
	s.parked[actor] = p
	s.arrived[actor]++
	s.all = append(s.all, p)
	s.x.Log.Append(mem.Ev{"k": "hook", "a": actor, "p": point})
	s.cond.Broadcast()
	s.mu.Unlock()
	<-p.release
}

// noteMap records (under s.mu) the identity of the type map an actor encodes with, AND of each of its internal
// tables: a copy of the struct that still shares its tables is shared state all the same
func (s *Sched) noteMap(actor string, subject any) {
	if s.mapIDs == nil {
		s.mapIDs = map[string]int{}
		s.MapsOf = map[string]map[int]bool{}
	}
	// (every map seen stays referenced: identities are addresses, and the address of a collected map could be
	// handed out again to the map of a later connection)
	s.keepAlive = append(s.keepAlive, subject)
	for i, key := range mapParts(subject) {
		id, ok := s.mapIDs[key]
		if !ok {
			id = len(s.mapIDs) + 1
			s.mapIDs[key] = id
		}
		dst := s.MapsOf
		if i > 0 {
			if s.PartsOf == nil {
				s.PartsOf = map[string]map[int]bool{}
			}
			dst = s.PartsOf
		}
		if dst[actor] == nil {
			dst[actor] = map[int]bool{}
		}
		dst[actor][id] = true
	}
}

// Gate is called by the scripted statement function (point "h.enter").
func (s *Sched) Gate(ctx context.Context, point string) {
	if a, ok := wire.RemoteAddress(ctx).(mem.Addr); ok {
		s.mu.Lock()
		s.byGoid[goid()] = fmt.Sprintf("c%d", a.ID)
		s.mu.Unlock()
	}
	s.Hook(point, nil)
}

func (s *Sched) register(actor string) {
	s.mu.Lock()
	s.byGoid[goid()] = actor
	s.mu.Unlock()
}

// goStatus returns the scheduler status of a goroutine ("chan receive",
// "sync.Mutex.Lock", "semacquire", "running", ...), or "" if it is gone.
func goStatus(id int64) string {
	buf := make([]byte, 1<<20)
	n := runtime.Stack(buf, true)
	needle := []byte(fmt.Sprintf("goroutine %d [", id))
	k := bytes.Index(buf[:n], needle)
	if k < 0 {
		return ""
	}
	rest := buf[k+len(needle) : n]
	e := bytes.IndexByte(rest, ']')
	if e < 0 {
		return ""
	}
	return string(rest[:e])
}

// settleConn waits until the connection's goroutine is parked at a gate or
// the server is blocked reading with nothing left to read.
func (s *Sched) settleConn(c *mem.Conn, actor string) string {
	deadline := time.Now().Add(WaitTimeout)
	for {
		s.mu.Lock()
		p := s.parked[actor]
		s.mu.Unlock()
		if p != nil {
			return "parked"
		}
		if c.IsIdle() {
			return "reading"
		}
		if c.ServerClosed() {
			return "gone"
		}
		if time.Now().After(deadline) {
			return "stuck"
		}
		time.Sleep(20 * time.Microsecond)
	}
}

func (s *Sched) goidOf(actor string) int64 {
	s.mu.Lock()
	defer s.mu.Unlock()
	for g, a := range s.byGoid {
		if a == actor {
			return g
		}
	}
	return -1
}

// settle waits until the actor is parked at a hook ("parked"), is blocked on
// the server's mutex or WaitGroup ("blocked"), or its goroutine is gone
// ("gone"). "stuck" after the timeout. since: arrivals counted before.
func (s *Sched) settle(actor string) string {
	deadline := time.Now().Add(s.StepTimeout)
	for spins := 0; ; spins++ {
		s.mu.Lock()
		p := s.parked[actor]
		fin := s.finished[actor]
		s.mu.Unlock()
		if p != nil {
			return "parked"
		}
		if fin {
			return "gone"
		}
		if spins > 2 {
			if g := s.goidOf(actor); g >= 0 {
				st := goStatus(g)
				switch {
				case st == "":
					return "gone"
				case strings.Contains(st, "Mutex") || strings.Contains(st, "semacquire") || strings.Contains(st, "WaitGroup"):
					return "blocked"
				case strings.Contains(st, "IO wait") || strings.Contains(st, "sync.Cond.Wait"):
					return "reading" // a connection goroutine waiting for input
				}
			}
		}
		if time.Now().After(deadline) {
			return "stuck"
		}
		if spins < 50 {
			runtime.Gosched()
		} else {
			time.Sleep(50 * time.Microsecond)
		}
	}
}

func (s *Sched) release(actor string) bool {
	s.mu.Lock()
	p := s.parked[actor]
	delete(s.parked, actor)
	s.mu.Unlock()
	if p == nil {
		return false
	}
	s.x.Log.Append(mem.Ev{"k": "rel", "a": actor})
	close(p.release)
	return true
}

// releaseAll ends schedule control.
func (s *Sched) releaseAll() {
	s.mu.Lock()
	s.free = true
	ps := s.all
	s.parked = map[string]*park{}
	s.mu.Unlock()
	for _, p := range ps {
		func() {
			defer func() { recover() }() //nolint
			close(p.release)
		}()
	}
}

// waitLog waits until an event satisfying pred is in the log.
func (s *Sched) waitLog(pred func(mem.Ev) bool) bool { return s.waitLogFor(s.StepTimeout, pred) }

func (s *Sched) waitLogFor(d time.Duration, pred func(mem.Ev) bool) bool {
	deadline := time.Now().Add(d)
	for time.Now().Before(deadline) {
		for _, e := range s.x.Log.Events() {
			if pred(e) {
				return true
			}
		}
		time.Sleep(200 * time.Microsecond)
	}
	return false
}

// PlaySched replays one schedule {cfg:{closers,conns,variant}, steps:[{a,act}...]}
// and returns the abstract trace for Trace_PgServer.
func PlaySched(beh M) ([]M, error) {
	cfgS := Sub(beh, "cfg")
	cfg := M{"auth": "none", "tls": "nil", "params": M{}, "version": "", "mw": []any{}, "term": "none", "limit": 8192}
	if I(beh, "_i")%5 == 3 && I(beh, "_i")%4 != 2 {
		// sessions whose context has ended are served, and accounted for, like any other (not together with the
		// statement that is held inside a row: with an ended context no row is encoded)
		cfg["ctx"] = "dead"
	}
	x, err := NewExec(cfg)
	if err != nil {
		return nil, err
	}
	s := NewSched(x)
	x.Sched = s
	wire.SetVerifHook(s.Hook)
	defer wire.SetVerifHook(nil)
	x.Lis.SetLog(x.Log)
	go func() {
		err := <-x.served
		e := "nil"
		if err != nil {
			e = err.Error()
		}
		x.Log.Append(mem.Ev{"k": "served", "err": e})
	}()

	// every other schedule: the same server serves a second listener as well - Close stops every accept loop and
	// each Serve returns nil
	var served2 chan error
	if I(beh, "_i")%2 == 1 {
		lis2 := mem.NewListener(nil)
		served2 = make(chan error, 1)
		go func() { served2 <- x.Srv.Serve(lis2) }()
		defer lis2.Close()
	}

	// ... and now and then a TCP listener of its own (ListenAndServe on a free loopback port) next to them
	var served3 chan error
	if I(beh, "_i")%8 == 5 {
		served3 = make(chan error, 1)
		go func() { served3 <- x.Srv.ListenAndServe("127.0.0.1:0") }()
	}

	// connections: startup, and a prepared portal "p", outside schedule control
	s.mu.Lock()
	s.free = true
	s.mu.Unlock()
	conns := map[string]*mem.Conn{}
	nconn := 0
	for _, cv := range L(cfgS, "conns") {
		name := fmt.Sprint(cv)
		var id int
		fmt.Sscanf(name, "c%d", &id)
		for nconn < id {
			c := x.Dial()
			nconn++
			c.Send(pgw.Startup(pgw.Version30, [][2]string{{"user", fmt.Sprintf("u%d", nconn)}}, true))
			if _, err := c.WaitQuiet(WaitTimeout); err != nil {
				return nil, fmt.Errorf("sched: connection setup failed")
			}
			conns[fmt.Sprintf("c%d", nconn)] = c
		}
	}
	// one scripted statement used by every command: as a simple Query, or as Execute of a portal
	// bound during setup (an extended-protocol command is a command like any other for Close)
	q := M{"id": 1, "parse": "ok", "stmts": []any{M{"id": 1, "cols": []any{}, "oids": []any{},
		"prog": []any{M{"op": "gate", "p": "h.enter"}, M{"op": "complete", "tag": "OK"}, M{"op": "ret", "r": "nil"}}}}}
	if I(beh, "_i")%4 == 2 {
		// the statement writes a row and is held in the middle of it - the DataRow half built, at the point where the
		// value is encoded - instead of before it: to the model the same point of the handler
		s.Pass = map[string]bool{"encode.exit": true}
		s.Rename = map[string]string{"encode.enter": "h.enter"}
		q = M{"id": 1, "parse": "ok", "stmts": []any{M{"id": 1, "cols": []any{M{"name": "v", "oid": 25}}, "oids": []any{},
			"prog": []any{M{"op": "row", "cells": []any{M{"c": "v", "val": "s:hello"}}}, M{"op": "complete", "tag": "OK"}, M{"op": "ret", "r": "nil"}}}}}
	}
	x.scripts["q1"] = q
	// a second statement whose function panics once it is running (recovered by the library inside Execute)
	x.scripts["q2"] = M{"id": 2, "parse": "ok", "stmts": []any{M{"id": 2, "cols": []any{}, "oids": []any{},
		"prog": []any{M{"op": "gate", "p": "h.enter"}, M{"op": "panic"}}}}}
	for _, c := range conns {
		c.Send(pgw.Parse("s", "q1", nil))
		c.Send(pgw.Bind("p", "s", nil, nil, nil))
		c.Send(pgw.Parse("s2", "q2", nil))
		c.Send(pgw.Bind("pp", "s2", nil, nil, nil))
		if I(beh, "_i")%3 != 0 {
			c.Send(pgw.Sync()) // otherwise the extended-query cycle stays open while Close runs
		}
		if _, err := c.WaitQuiet(WaitTimeout); err != nil {
			return nil, fmt.Errorf("sched: portal setup failed")
		}
	}
	// now and then an earlier connection of this server ended with a command that failed at the level of the
	// connection (a Query whose text has no terminator): that command is accounted for like any other
	if I(beh, "_i")%4 == 1 {
		j := x.Dial()
		j.Send(pgw.Startup(pgw.Version30, [][2]string{{"user", "junk"}}, true))
		j.WaitQuiet(WaitTimeout) //nolint
		j.Send(pgw.Typed('Q', []byte("q1 without terminator")))
		j.WaitQuiet(WaitTimeout) //nolint
		j.CloseClient()
		j.WaitClosed(WaitTimeout) //nolint
	}
	// now and then a further client is in the middle of its start-up (connected and silent, or part of its
	// start-up packet sent) for as long as the schedule and the shutdown last: Close and Serve do not wait for it
	var starting *mem.Conn
	if I(beh, "_i")%4 == 3 {
		starting = x.Dial()
		if I(beh, "_i")%8 == 3 {
			starting.Send([]byte{0, 0})
		}
		starting.WaitQuiet(WaitTimeout) //nolint
	}
	s.mu.Lock()
	s.free = false
	s.mu.Unlock()
	ncmd := 0
	stepIdx := 0
	cmdBytes := map[string][]byte{}
	nextCmd := func(a string) []byte {
		if b, ok := cmdBytes[a]; ok { // the rest of a message delivered in two parts
			return b
		}
		ncmd++
		switch (ncmd + len(a) + I(beh, "_i")) % 4 {
		case 0, 2:
			return pgw.Execute("p", 0)
		case 1:
			// the failing Execute leaves the connection discarding until Sync (messages are then dropped before
			// admission): only as the last command delivered to this connection
			later := false
			for _, sv := range L(beh, "steps")[stepIdx+1:] {
				st := AsM(sv)
				if S(st, "a") == a && strings.HasPrefix(S(st, "act"), "Deliver") {
					later = true
				}
			}
			if !later {
				return pgw.Execute("pp", 0)
			}
			return pgw.Execute("p", 0)
		}
		return pgw.Query("q1")
	}
	start := len(x.Log.Events())
	x.Log.Append(mem.Ev{"k": "sched-start"})

	stuck := func(a, act string) {
		x.Log.Append(mem.Ev{"k": "stuck", "a": a, "act": act})
	}
	// step: release the actor from where it is parked and let it settle again
	step := func(a string) string {
		if st := s.settle(a); st != "parked" {
			return st
		}
		s.release(a)
		return s.settle(a)
	}
	started := []string{}
	partial := map[string]bool{}
	// catch-up: the schedules come from a lock-free model, the real goroutines take the lock: one that was blocked
	// while the model moved it on lags behind. After every step each parked goroutine that has arrived at fewer
	// hook points than the model has moved it through is released again, so that the real execution reaches the
	// states the schedule is about.
	want := map[string]int{}
	waitBegun := map[string]bool{}
	catchUp := func() {
		for iter := 0; iter < 24; iter++ {
			progressed := false
			for b, w := range want {
				s.mu.Lock()
				p := s.parked[b]
				arr := s.arrived[b]
				s.mu.Unlock()
				if p == nil {
					continue
				}
				if arr < w || (p.point == "close.waiting" && waitBegun[b]) {
					s.release(b)
					s.settle(b)
					progressed = true
				}
			}
			if !progressed {
				return
			}
		}
	}
	ok := true
	for si, sv := range L(beh, "steps") {
		if !ok {
			break
		}
		stepIdx = si
		st := AsM(sv)
		a, act := S(st, "a"), S(st, "act")
		res := "parked"
		switch act {
		case "KStart":
			actor := a
			started = append(started, a)
			ready := make(chan struct{})
			x.Log.Append(mem.Ev{"k": "rel", "a": actor})
			go func() {
				s.register(actor)
				close(ready)
				defer func() {
					if r := recover(); r != nil {
						x.Log.Append(mem.Ev{"k": "panic", "a": actor, "msg": fmt.Sprint(r)})
					}
					s.mu.Lock()
					s.finished[actor] = true
					s.mu.Unlock()
				}()
				err := x.Srv.Close()
				e := "nil"
				if err != nil {
					e = err.Error()
				}
				x.Log.Append(mem.Ev{"k": "ret", "a": actor, "err": e})
			}()
			<-ready
			res = s.settle(a)
		case "KLock", "KDecide", "KUnlock", "KReturn", "CLock", "CDecide", "CEnter", "CStart", "CFinish":
			res = step(a)
		case "KWaitBegin":
			res = step(a)
		case "KWaitEnd":
			res = s.settle(a)
		case "Deliver":
			if !conns[a].IsIdle() || partial[a] {
				break // the real execution has left the model's schedule: the connection is not waiting for input
			}
			x.Log.Append(mem.Ev{"k": "rel", "a": a})
			conns[a].Send(nextCmd(a))
			res = s.settle(a)
		case "DeliverPart":
			if !conns[a].IsIdle() || partial[a] {
				break
			}
			partial[a] = true
			x.Log.Append(mem.Ev{"k": "env", "act": "part", "a": a})
			cmdBytes[a] = nextCmd(a)
			cut := 3
			restLater := false
			for _, sv := range L(beh, "steps")[si+1:] {
				if st2 := AsM(sv); S(st2, "a") == a && S(st2, "act") == "DeliverRest" {
					restLater = true
				}
			}
			if !restLater && (I(beh, "_i")+len(a))%2 == 0 {
				// a message over the size limit of which the header and some of the body have arrived, and no more
				// will: the connection waits in the middle of a message like any other - nothing has been admitted
				big := make([]byte, 9000)
				for i := range big {
					big[i] = 'x'
				}
				cmdBytes[a] = pgw.Typed('Q', big)
				cut = 105
			}
			conns[a].Send(cmdBytes[a][:cut])
			if _, err := conns[a].WaitQuiet(s.StepTimeout); err != nil {
				res = "stuck"
			}
		case "DeliverRest":
			if !partial[a] {
				break
			}
			partial[a] = false
			x.Log.Append(mem.Ev{"k": "rel", "a": a})
			conns[a].Send(cmdBytes[a][3:])
			delete(cmdBytes, a)
			res = s.settle(a)
		case "CLoop":
			res = step(a) // ends parked at the next hook, or reading the next message
		case "CloserGo":
			// autonomous steps: give them a moment to happen (they may be impossible
			// here when the real execution has left the model's schedule)
			s.waitLogFor(10*time.Millisecond, func(e mem.Ev) bool { return e["k"] == "listener-closed" })
		case "ServeReturn":
			s.waitLogFor(10*time.Millisecond, func(e mem.Ev) bool { return e["k"] == "served" })
		}
		if res == "stuck" {
			ok = false
			stuck(a, act)
		}
		switch act {
		case "KStart", "KLock", "KDecide", "KUnlock", "KWaitEnd", "Deliver", "DeliverRest", "CLock", "CDecide", "CEnter", "CStart", "CFinish":
			want[a]++
		case "KWaitBegin":
			waitBegun[a] = true
		}
		if ok {
			catchUp()
		}
	}
	// end of schedule: let everything run to completion
	x.Log.Append(mem.Ev{"k": "sched-end"})
	s.releaseAll()
	late := I(beh, "_i")%3 == 1 // the connections stay open until the server has been closed: see below
	if !late {
		for _, c := range x.Conns {
			if c != starting {
				c.CloseClient()
			}
		}
		for _, c := range x.Conns {
			if c != starting {
				c.WaitClosed(s.StepTimeout) //nolint
			}
		}
	}
	done := make(chan struct{})
	go func() {
		defer close(done)
		defer func() {
			if r := recover(); r != nil {
				x.Log.Append(mem.Ev{"k": "panic", "a": "cleanup", "msg": fmt.Sprint(r)})
			}
		}()
		x.Srv.Close() //nolint
	}()
	select {
	case <-done:
	case <-time.After(s.StepTimeout):
	}
	// liveness at the end of every schedule: every Close that was called has
	// returned (none panicked), and Serve has returned nil
	allret := s.waitLog(func(mem.Ev) bool {
		n := 0
		for _, e := range x.Log.Events() {
			if e["k"] == "ret" {
				n++
			}
		}
		return n >= len(started)
	})
	servedNil := s.waitLog(func(e mem.Ev) bool { return e["k"] == "served" && e["err"] == "nil" })
	if served2 != nil {
		select {
		case err := <-served2:
			servedNil = servedNil && err == nil
		case <-time.After(s.StepTimeout):
			servedNil = false // the second accept loop is still running after Close
		}
	}
	// whatever Close did meanwhile, what each connection received is a sequence of whole, well-formed backend messages
	wireOK := true
	for _, c := range x.Conns {
		msgs, rest, bad := pgw.Frame(c.Output())
		if bad || len(rest) > 0 {
			wireOK = false
		}
		for _, m := range msgs {
			if wf, _ := pgw.Decode(m)["wf"].(bool); !wf {
				wireOK = false
			}
		}
	}
	if served3 != nil {
		select {
		case err := <-served3:
			servedNil = servedNil && err == nil
		case <-time.After(s.StepTimeout):
			servedNil = false
		}
	}
	lateOK := true
	if late && allret && servedNil {
		// Close is final: every Close call has returned and the connections of the schedule are still open. Somebody
		// calls Serve again with a listener that comes late - it returns nil at once - and the connections send one
		// more command: no parser, no statement function runs for it
		lis3 := mem.NewListener(nil)
		r := make(chan error, 1)
		go func() {
			defer func() {
				if p := recover(); p != nil {
					r <- fmt.Errorf("panic: %v", p)
				}
			}()
			r <- x.Srv.Serve(lis3)
		}()
		select {
		case err := <-r:
			lateOK = err == nil
		case <-time.After(s.StepTimeout):
			lateOK = false
		}
		lis3.Close()
		mark := len(x.Log.Events())
		for _, c := range x.Conns {
			if c != starting && !c.ServerClosed() && c.IsIdle() {
				c.Send(pgw.Query("q1"))
				c.WaitQuiet(s.StepTimeout) //nolint
			}
		}
		for _, e := range x.Log.Events()[mark:] {
			if e["k"] == "cb" {
				if n := S(AsM(e["c"]), "name"); n == "parse" || n == "stmt.start" {
					lateOK = false
				}
			}
		}
	}
	if late {
		for _, c := range x.Conns {
			c.CloseClient()
		}
		for _, c := range x.Conns {
			c.WaitClosed(s.StepTimeout) //nolint
		}
	}
	if starting != nil && !late {
		starting.CloseClient()
		starting.WaitClosed(s.StepTimeout) //nolint
	}
	x.Log.Append(mem.Ev{"k": "final", "allret": allret, "served": servedNil, "wire": wireOK, "late": lateOK})
	x.Lis.Close()

	out := []M{{"k": "cfg", "c": M{"closers": cfgS["closers"], "conns": cfgS["conns"]}}}
	evs := x.Log.Events()
	end := len(evs)
	var final mem.Ev
	for i, e := range evs {
		if e["k"] == "sched-end" {
			end = i
		}
		if e["k"] == "final" {
			final = e
		}
	}
	defer func() {}()
	for _, e := range evs[start:end] {
		switch e["k"] {
		case "hook":
			out = append(out, M{"k": "hook", "a": e["a"], "p": e["p"]})
		case "rel":
			out = append(out, M{"k": "rel", "a": e["a"]})
		case "ret", "panic":
			out = append(out, M{"k": e["k"], "a": e["a"]})
		case "env":
			out = append(out, M{"k": "env", "act": e["act"], "a": e["a"]})
		case "listener-closed":
			out = append(out, M{"k": "lclosed"})
		case "served":
			out = append(out, M{"k": "served", "err": e["err"]})
		case "stuck":
			out = append(out, M{"k": "stuck", "a": e["a"], "act": e["act"]})
		case "idle":
			out = append(out, M{"k": "idle", "a": fmt.Sprintf("c%d", AsInt(e["conn"]))})
		}
	}
	for _, e := range evs[end:] {
		if e["k"] == "panic" { // a Close call that panicked after the schedule was released
			out = append(out, M{"k": "panic", "a": e["a"]})
		}
	}
	if final != nil {
		out = append(out, M{"k": "final", "allret": final["allret"], "served": final["served"], "wire": final["wire"], "late": final["late"]})
	}
	return out, nil
}

// mapParts names the identity of a type map and of the mutable tables inside it
// (maps and non-empty slices of the struct, found by reflection).
func mapParts(subject any) []string {
	keys := []string{fmt.Sprintf("%p", subject)}
	v := reflect.ValueOf(subject)
	if v.Kind() != reflect.Ptr || v.IsNil() || v.Elem().Kind() != reflect.Struct {
		return keys
	}
	e := v.Elem()
	for i := 0; i < e.NumField(); i++ {
		f := e.Field(i)
		switch f.Kind() {
		case reflect.Map, reflect.Ptr:
			if f.Pointer() != 0 {
				keys = append(keys, fmt.Sprintf("%s@%x", e.Type().Field(i).Name, f.Pointer()))
			}
		case reflect.Slice:
			if f.Cap() > 0 {
				keys = append(keys, fmt.Sprintf("%s@%x", e.Type().Field(i).Name, f.Pointer()))
			}
		}
	}
	return keys
}
