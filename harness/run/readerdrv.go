package run

import (
	"bytes"
	"errors"
	"io"
	"math/rand"
	"unsafe"

	"github.com/jeroenrinzema/psql-wire/pkg/buffer"

	"verif/harness/pgw"
)

// segReader delivers a byte stream in segments of random sizes.
type segReader struct {
	data []byte
	rng  *rand.Rand
	mode int // 0: random segments, 1: one byte per read, 2: everything available
}

func (s *segReader) Read(p []byte) (int, error) {
	if len(s.data) == 0 {
		return 0, io.EOF
	}
	n := len(p)
	switch s.mode {
	case 1:
		n = 1
	case 0:
		n = 1 + s.rng.Intn(7)
		if s.rng.Intn(4) == 0 {
			n = 1 + s.rng.Intn(5000)
		}
	}
	if n > len(p) {
		n = len(p)
	}
	if n > len(s.data) {
		n = len(s.data)
	}
	copy(p, s.data[:n])
	s.data = s.data[n:]
	return n, nil
}

func endPtr(b []byte) uintptr {
	if cap(b) == 0 {
		return 0
	}
	return uintptr(unsafe.Pointer(unsafe.SliceData(b))) + uintptr(cap(b))
}

type view struct {
	live []byte
	copy []byte
}

// concreteSize maps an abstract body size of the scaled model (granule g,
// limit l) to a real size (granule 4096, limit L).
func concreteSize(n, g, l, L int) int {
	switch {
	case n < 0:
		return -1
	case n == l-1 && l-1 > 1:
		return L - 1
	case n == l:
		return L
	case n == l+1:
		return L + 1
	case n == 2*l+1:
		return 2*L + 1
	case n == g-1:
		return 4095
	case n == g:
		return 4096
	case n == g+1:
		return 4097
	}
	return n
}

// PlayReader replays one behaviour on the real buffer.Reader through its
// public API (no server involved).
func PlayReader(beh M, rng *rand.Rand) []M {
	if S(beh, "kind") == "access" {
		return playAccess(beh, rng)
	}
	g, l := I(beh, "gran"), I(beh, "lim")
	L := l
	if g != 4096 { // scaled model: choose a real limit in the same relation to the granule
		switch {
		case l < g:
			L = []int{16, 100, 2048, 4094}[rng.Intn(4)]
		case l == g:
			L = 4096
		default:
			L = []int{4097, 6000, 8192, 20000}[rng.Intn(4)]
		}
	}
	var stream []byte
	var sizes []int
	for _, mv := range L_(beh, "msgs") {
		n := I(AsM(mv), "size")
		if g != 4096 {
			n = concreteSize(n, g, l, L)
		}
		if n < 0 {
			d := rng.Intn(4) // a declared length below the 4-byte minimum
			sizes = append(sizes, d-4)
			stream = append(stream, pgw.TypedDeclared('Q', uint32(d), nil)...)
			continue
		}
		sizes = append(sizes, n)
		body := make([]byte, n)
		rng.Read(body)
		stream = append(stream, pgw.Typed('Q', body)...)
	}
	r := buffer.NewReader(quietLogger(), &segReader{data: stream, rng: rng, mode: rng.Intn(3)}, L)
	out := []M{{"k": "rcfg", "gran": 4096, "lim": L}}
	var views []view
	prevEnd := uintptr(0)
	intact := func() bool {
		for _, v := range views {
			if !bytes.Equal(v.live, v.copy) {
				return false
			}
		}
		return true
	}
	observe := func(ev M) {
		ev["cap"] = cap(r.Msg)
		ev["len"] = len(r.Msg)
		// a window without any capacity sits at the very end of its allocation: not a fresh one
		// (a fresh allocation has at least the granule as capacity)
		if e := endPtr(r.Msg); e != 0 {
			ev["fresh"] = e != prevEnd
			prevEnd = e
		} else {
			ev["fresh"] = false
		}
		ev["intact"] = intact()
		if len(r.Msg) > 0 {
			views = append(views, view{live: r.Msg, copy: append([]byte{}, r.Msg...)})
		}
		out = append(out, ev)
	}
	for _, n := range sizes {
		_, _, err := r.ReadTypedMsg()
		switch {
		case err == nil:
			observe(M{"k": "read", "size": n, "ret": "ok"})
		case errors.Is(err, buffer.ErrMessageSizeExceeded):
			ex, _ := buffer.UnwrapMessageSizeExceeded(err)
			out = append(out, M{"k": "read", "size": n, "ret": "exceeded", "cap": 0, "len": 0, "fresh": false, "intact": intact(), "reported": ex.Size})
			if serr := r.Slurp(ex.Size); serr != nil {
				out = append(out, M{"k": "slurperr"})
				return out
			}
			if ex.Size > 0 {
				observe(M{"k": "slurp", "n": ex.Size})
			}
		default:
			out = append(out, M{"k": "readerr", "size": n})
			return out
		}
	}
	return out
}

func L_(m M, k string) []any { return L(m, k) }

// playAccess: a body of NUL / non-NUL cells, a sequence of accessor calls -
// performed on two consecutive messages carrying the same body, so that what
// was left unread of the first cannot leak into the second.
func playAccess(beh M, rng *rand.Rand) []M {
	cells := L(beh, "body")
	body := make([]byte, len(cells))
	bodyStr := make([]any, len(cells))
	for i, c := range cells {
		bodyStr[i] = c
		if c == "z" {
			body[i] = 0
		} else {
			body[i] = byte(1 + rng.Intn(255))
		}
	}
	stream := append(pgw.Typed('Q', body), pgw.Typed('P', body)...)
	stream = append(stream, pgw.Typed('X', []byte("tail-bytes-of-the-next-message"))...)
	r := buffer.NewReader(quietLogger(), &segReader{data: stream, rng: rng, mode: rng.Intn(3)}, 8192)
	out := []M{{"k": "acfg", "body": bodyStr}}
	for round := 0; round < 2; round++ {
		if _, _, err := r.ReadTypedMsg(); err != nil {
			out = append(out, M{"k": "readerr"})
			return out
		}
		out = append(out, M{"k": "abody", "len": len(r.Msg)})
		pos := 0
		for _, ov := range L(beh, "ops") {
			op := AsM(ov)
			ev := M{"k": "acc", "op": Clean(op)}
			var got []byte
			var err error
			switch S(op, "op") {
			case "bytes":
				got, err = r.GetBytes(I(op, "n"))
			case "u16":
				var v uint16
				v, err = r.GetUint16()
				if err == nil {
					got = body[pos : pos+2]
					if int(v) != int(body[pos])<<8|int(body[pos+1]) {
						got = nil
						ev["wrong"] = true
					}
				}
			case "u32":
				var v uint32
				v, err = r.GetUint32()
				if err == nil {
					got = body[pos : pos+4]
					if v != uint32(body[pos])<<24|uint32(body[pos+1])<<16|uint32(body[pos+2])<<8|uint32(body[pos+3]) {
						got = nil
						ev["wrong"] = true
					}
				}
			case "str":
				var s string
				s, err = r.GetString()
				got = []byte(s)
			}
			ev["ok"] = err == nil
			ev["n"] = len(got)
			// the bytes returned are exactly the next bytes of THIS body
			ev["exact"] = err != nil || (pos+len(got) <= len(body) && bytes.Equal(got, body[pos:pos+len(got)]))
			if err == nil {
				pos += len(got)
				if S(op, "op") == "str" {
					pos++
				}
			}
			out = append(out, ev)
			if err != nil {
				break
			}
		}
	}
	return out
}
