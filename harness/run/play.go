package run

import (
	"bytes"
	"math/rand"

	wire "github.com/jeroenrinzema/psql-wire"
	"github.com/jeroenrinzema/psql-wire/pkg/buffer"

	"verif/harness/mem"
)

// Play runs one abstract behaviour {cfg, steps} against the real server on a
// single connection and returns the abstract trace (first event: cfg).
//
// Steps:
//
//	{"k":"send","m":<abstract message>[,"nowait":true]}   (default: wait until the server is quiet)
//	{"k":"eof"}                                            client closes its side
//	{"k":"fault","on":"read"|"write","after":k}            transport starts failing
//
// Every execution that is still open at the end is finished with an EOF, and
// the server must then close the connection.
func Play(beh M, rng *rand.Rand, proj *Projection) ([]M, error) {
	cfg := Sub(beh, "cfg")
	if S(cfg, "limit") == "sym" {
		cfg["_limit"] = SymLimits[rng.Intn(len(SymLimits))]
	}
	x, err := NewExec(cfg)
	if err != nil {
		return nil, err
	}
	conn := x.Dial()
	cz := &Concretiser{X: x, Rng: rng}
	wedged := false
	wait := func() bool {
		if _, err := conn.WaitQuiet(WaitTimeout); err != nil {
			x.Log.Append(mem.Ev{"k": "wedged", "conn": conn.ID})
			wedged = true
			return false
		}
		return true
	}
	wait()
	for _, sv := range L(beh, "steps") {
		if wedged || conn.ServerClosed() {
			break
		}
		st := AsM(sv)
		switch S(st, "k") {
		case "send":
			m := AsM(st["m"])
			b := cz.Bytes(m)
			conn.Send(b, mem.Ev{"k": "send", "m": m})
			if !B(st, "nowait") {
				wait()
			}
		case "eof":
			conn.CloseClient()
			if err := conn.WaitClosed(WaitTimeout); err != nil {
				x.Log.Append(mem.Ev{"k": "wedged", "conn": conn.ID})
				wedged = true
			}
		case "parseparams":
			// direct call of the documented helper (a panic here kills the process: crash detection)
			toks := L(st, "toks")
			text := cz.RenderToks(toks)
			x.Log.Append(mem.Ev{"k": "x-parseparams-call", "conn": conn.ID})
			res := wire.ParseParameters(text)
			zero := true
			for _, o := range res {
				if o != 0 {
					zero = false
				}
			}
			x.Log.Append(mem.Ev{"k": "x-parseparams", "conn": conn.ID, "toks": toks, "n": len(res), "allzero": zero})
		case "errorcode":
			// direct call of the public helper on a buffer.Writer (C17: nil error clause)
			var err error
			isnil := st["err"] == nil
			if !isnil {
				err = BuildErr(AsM(st["err"]))
			}
			var sink bytes.Buffer
			w := buffer.NewWriter(quietLogger(), &sink)
			wire.ErrorCode(w, err) //nolint
			ev := mem.Ev{"k": "x-errorcode", "conn": conn.ID, "isnil": isnil, "err": M{"base": "", "layers": []any{}}}
			if !isnil {
				ev["err"] = st["err"]
			}
			x.Log.Append(ev)
			x.Log.Append(mem.Ev{"k": "write", "conn": conn.ID, "b": sink.Bytes()})
		case "fault":
			switch S(st, "on") {
			case "read":
				conn.FailReadsAfter(I(st, "after"))
			case "write":
				conn.FailWritesAfter(I(st, "after"))
			case "bytes":
				conn.FailAfterBytes(I(st, "after"))
			}
		}
	}
	if !wedged && !conn.ServerClosed() {
		conn.CloseClient()
		if err := conn.WaitClosed(WaitTimeout); err != nil {
			x.Log.Append(mem.Ev{"k": "wedged", "conn": conn.ID})
		}
	}
	x.Shutdown()
	// the user's global parameter map after the run (must be untouched)
	x.Log.Append(mem.Ev{"k": "x-global", "conn": conn.ID, "m": paramsObj(x.Global)})
	p := &Projector{Conn: conn.ID, Proj: proj, SkipPre: proj != nil && proj.SkipPreamble}
	for _, e := range x.Log.Events() {
		p.Feed(e)
	}
	p.Finish()
	out := append([]M{{"k": "cfg", "c": Clean(cfg)}}, p.Out...)
	return out, nil
}
