package run

import (
	"bytes"
	"crypto/tls"
	"encoding/json"
	"fmt"
	"math/rand"
	"runtime"
	"sort"
	"strings"
	"sync"
	"time"

	wire "github.com/jeroenrinzema/psql-wire"
	"github.com/jeroenrinzema/psql-wire/pkg/buffer"

	"verif/harness/mem"
	"verif/harness/pgw"
)

// Play runs one abstract behaviour {cfg, steps} against the real server on a
// single connection and returns the abstract trace (first event: cfg).
//
// Steps:
//
//	{"k":"send","m":<abstract message>[,"nowait":true]}   (default: wait until the server is quiet)
//	{"k":"eof"}                                            client closes its side
//	{"k":"fault","on":"read"|"write","after":k}            transport starts failing
//
// Every execution that is still open at the end is finished with an EOF, and
// the server must then close the connection.
func Play(beh M, rng *rand.Rand, proj *Projection) ([]M, error) {
	return PlayMode(beh, rng, proj, 0)
}

// Segmentation modes for PlayMode: the client's bytes are the same, only the
// way they reach the server differs.
const (
	SegPerMessage = 0 // one message per segment, waiting for the server in between (the default)
	SegAllAtOnce  = 1 // the whole stream in one segment
	SegPerByte    = 2 // one byte per segment
	SegRandom     = 3 // random cuts
	SegInHeaders  = 4 // a cut after every type byte and in the middle of every length field
)

// PlayMode is Play with a segmentation mode. In the stream modes (1-4) every
// message is concretised first; a message's "send" event is logged when its
// last byte is offered to the server.
func PlayMode(beh M, rng *rand.Rand, proj *Projection, mode int) ([]M, error) {
	if mode != SegPerMessage {
		return playStream(beh, rng, proj, mode)
	}
	cfg := Sub(beh, "cfg")
	if S(cfg, "limit") == "sym" {
		cfg["_limit"] = SymLimits[rng.Intn(len(SymLimits))]
	}
	if S(cfg, "tls") == "empty" {
		cfg["_tlsfield"] = rng.Intn(3)
	}
	if S(cfg, "tls") == "cert" {
		cfg["_tlsvar"] = rng.Intn(6)
	}
	x, err := NewExec(cfg)
	if err != nil {
		return nil, err
	}
	conn := x.Dial()
	cz := &Concretiser{X: x, Rng: rng}
	wedged := false
	var gluedBytes []byte
	var gluedEvs []mem.Ev
	wait := func() bool {
		if _, err := conn.WaitQuiet(WaitTimeout); err != nil {
			x.Log.Append(mem.Ev{"k": "wedged", "conn": conn.ID})
			wedged = true
			return false
		}
		return true
	}
	wait()
	var tc *tls.Conn
	plain := map[int][]byte{} // server Write index -> plaintext the TLS client found in it
	var plainMu sync.Mutex
	readerDone := make(chan struct{})
	for _, sv := range L(beh, "steps") {
		if wedged || conn.ServerClosed() {
			break
		}
		st := AsM(sv)
		switch S(st, "k") {
		case "tls":
			// the client performs the TLS handshake over the raw connection
			conn.SkipRaw(conn.PendingRaw()) // the plaintext reply to the SSLRequest is not part of the TLS stream
			tc = tls.Client(mem.ClientEnd{C: conn}, &tls.Config{InsecureSkipVerify: true})
			hs := make(chan error, 1)
			go func() { hs <- tc.Handshake() }()
			var herr error
			select {
			case herr = <-hs:
			case <-time.After(WaitTimeout):
				herr = mem.ErrTimeout
			}
			if herr != nil {
				x.Log.Append(mem.Ev{"k": "tlsfail", "conn": conn.ID})
				tc = nil
				wait()
				continue
			}
			x.Log.Append(mem.Ev{"k": "tls", "conn": conn.ID})
			go func() {
				defer close(readerDone)
				buf := make([]byte, 1<<16)
				for {
					n, err := tc.Read(buf)
					if n > 0 {
						idx := conn.WriteIndexAt(conn.RawConsumed())
						plainMu.Lock()
						plain[idx] = append(plain[idx], buf[:n]...)
						plainMu.Unlock()
					}
					if err != nil {
						return
					}
				}
			}()
			wait()
		case "send":
			m := AsM(st["m"])
			b := cz.Bytes(m)
			hostile := false
			switch S(m, "t") {
			case "Bad", "Tiny", "Big", "U", "Huge":
				hostile = proj != nil && proj.Alloc
			}
			var before runtime.MemStats
			if hostile {
				runtime.ReadMemStats(&before)
			}
			defer func() {}()
			if tc != nil {
				x.Log.Append(mem.Ev{"k": "send", "conn": conn.ID, "m": m})
				conn.BeginClientWrite()
				tc.Write(b) //nolint
				conn.EndClientWrite()
			} else if B(st, "glue") {
				// held back: reaches the server in one write together with the next message
				gluedBytes = append(gluedBytes, b...)
				gluedEvs = append(gluedEvs, mem.Ev{"k": "send", "m": m})
				continue
			} else if k := I(st, "cut"); k > 0 && len(b) > 1 && len(gluedBytes) == 0 {
				// the message reaches the server in two pieces, the second one only after the server has taken in
				// the first and waits for the rest
				k = 1 + (k-1)%(len(b)-1)
				conn.Send(b[:k])
				conn.WaitQuiet(WaitTimeout)                   //nolint
				conn.Send(b[k:], mem.Ev{"k": "send", "m": m}) // only now has the message been sent
			} else {
				conn.Send(append(gluedBytes, b...), append(gluedEvs, mem.Ev{"k": "send", "m": m})...)
				gluedBytes, gluedEvs = nil, nil
			}
			if !B(st, "nowait") {
				wait()
			}
			if hostile {
				var after runtime.MemStats
				runtime.ReadMemStats(&after)
				x.Log.Append(mem.Ev{"k": "x-alloc", "conn": conn.ID, "bytes": capInt(after.TotalAlloc - before.TotalAlloc), "sent": len(b), "limit": x.EffLimit()})
			}
		case "elapse":
			// an hour goes by with the connection idle: nothing a finished command left behind (a deadline still
			// armed on the connection, say) may end it or disturb what follows
			if conn.IsIdle() {
				conn.Elapse(time.Hour)
				wait()
			}
		case "eof":
			conn.CloseClient()
			if err := conn.WaitClosed(WaitTimeout); err != nil {
				x.Log.Append(mem.Ev{"k": "wedged", "conn": conn.ID})
				wedged = true
			}
		case "parseparams":
			// direct call of the documented helper (a panic here kills the process: crash detection)
			toks := L(st, "toks")
			text := cz.RenderToks(toks)
			x.Log.Append(mem.Ev{"k": "x-parseparams-call", "conn": conn.ID})
			res := wire.ParseParameters(text)
			zero := true
			for _, o := range res {
				if o != 0 {
					zero = false
				}
			}
			x.Log.Append(mem.Ev{"k": "x-parseparams", "conn": conn.ID, "toks": toks, "n": len(res), "allzero": zero})
		case "errorcode":
			// direct call of the public helper on a buffer.Writer (C17: nil error clause)
			var err error
			isnil := st["err"] == nil
			if !isnil {
				err = BuildErr(AsM(st["err"]))
			}
			var sink bytes.Buffer
			w := buffer.NewWriter(quietLogger(), &sink)
			wire.ErrorCode(w, err) //nolint
			ev := mem.Ev{"k": "x-errorcode", "conn": conn.ID, "isnil": isnil, "err": M{"base": "", "layers": []any{}}}
			if !isnil {
				ev["err"] = st["err"]
			}
			x.Log.Append(ev)
			x.Log.Append(mem.Ev{"k": "write", "conn": conn.ID, "b": sink.Bytes()})
		case "fault":
			switch S(st, "on") {
			case "read":
				conn.FailReadsAfter(I(st, "after"))
			case "write":
				conn.FailWritesAfter(I(st, "after"))
			case "bytes":
				conn.FailAfterBytes(I(st, "after"))
			}
		}
	}
	if len(gluedBytes) > 0 {
		conn.Send(gluedBytes, gluedEvs...) // a trailing held message is sent after all
	}
	if !wedged && !conn.ServerClosed() {
		conn.CloseClient()
		if err := conn.WaitClosed(WaitTimeout); err != nil {
			x.Log.Append(mem.Ev{"k": "wedged", "conn": conn.ID})
		}
	}
	// after a hostile connection the server still accepts and serves a new one
	var probe *mem.Conn
	if B(beh, "probe") {
		probe = x.Dial()
		pz := &Concretiser{X: x, Rng: rng}
		for _, m := range []M{{"t": "Startup", "term": true, "kvs": []any{M{"k": "user", "v": "probe"}}},
			{"t": "Q", "q": M{"id": 777, "parse": "ok", "stmts": []any{M{"id": 777, "cols": []any{}, "oids": []any{}, "prog": []any{M{"op": "complete", "tag": "PROBE"}, M{"op": "ret", "r": "nil"}}}}}}} {
			if S(cfg, "auth") == "clear" && S(m, "t") == "Q" {
				pm := M{"t": "p", "pw": "good"}
				probe.Send(pz.Bytes(pm), mem.Ev{"k": "send", "m": pm})
				probe.WaitQuiet(WaitTimeout) //nolint
			}
			probe.Send(pz.Bytes(m), mem.Ev{"k": "send", "m": m})
			if _, err := probe.WaitQuiet(WaitTimeout); err != nil {
				x.Log.Append(mem.Ev{"k": "wedged", "conn": probe.ID})
			}
		}
		probe.CloseClient()
		if probe.WaitClosed(WaitTimeout) != nil {
			x.Log.Append(mem.Ev{"k": "wedged", "conn": probe.ID})
		}
	}
	if tc != nil { // let the TLS client drain what the server wrote
		select {
		case <-readerDone:
		case <-time.After(WaitTimeout):
		}
	}
	x.Shutdown()
	// the user's global parameter map after the run (must be untouched)
	x.Log.Append(mem.Ev{"k": "x-global", "conn": conn.ID, "m": paramsObj(x.Global), "tlsok": x.ConfigIntact()})
	// everything the callbacks retained still has its content (C18)
	x.Log.Append(mem.Ev{"k": "x-intact", "conn": conn.ID, "ok": x.Intact()})
	plainMu.Lock()
	p := &Projector{Conn: conn.ID, Proj: proj, SkipPre: proj != nil && proj.SkipPreamble, Plain: plain}
	for _, e := range x.Log.Events() {
		p.Feed(e)
	}
	plainMu.Unlock()
	p.Finish()
	out := append([]M{{"k": "cfg", "c": Clean(cfg)}}, p.Out...)
	if probe != nil {
		p2 := &Projector{Conn: probe.ID, Proj: proj, SkipPre: proj != nil && proj.SkipPreamble}
		for _, e := range x.Log.Events() {
			if e["k"] == "x-global" || e["k"] == "x-intact" {
				continue
			}
			p2.Feed(e)
		}
		p2.Finish()
		out = append(out, M{"k": "cfg", "c": Clean(cfg)})
		out = append(out, p2.Out...)
	}
	return out, nil
}

func playStream(beh M, rng *rand.Rand, proj *Projection, mode int) ([]M, error) {
	cfg := Sub(beh, "cfg")
	if S(cfg, "limit") == "sym" {
		cfg["_limit"] = SymLimits[rng.Intn(len(SymLimits))]
	}
	if S(cfg, "tls") == "empty" {
		// same draws, in the same order, as the message-by-message run: every segmentation of a stream
		// must be concretised to the same bytes
		cfg["_tlsfield"] = rng.Intn(3)
	}
	if S(cfg, "tls") == "cert" {
		cfg["_tlsvar"] = rng.Intn(6)
	}
	x, err := NewExec(cfg)
	if err != nil {
		return nil, err
	}
	conn := x.Dial()
	cz := &Concretiser{X: x, Rng: rng}
	// the whole byte stream and, for every message, the offset of its last byte
	var stream []byte
	type msgEnd struct {
		end int
		m   M
	}
	var ends []msgEnd
	eof := false
	for _, sv := range L(beh, "steps") {
		st := AsM(sv)
		switch S(st, "k") {
		case "send":
			m := AsM(st["m"])
			stream = append(stream, cz.Bytes(m)...)
			ends = append(ends, msgEnd{len(stream), m})
		case "eof":
			eof = true
		}
		if eof {
			break
		}
	}
	cuts := map[int]bool{}
	switch mode {
	case SegPerByte:
		for i := 1; i < len(stream); i++ {
			cuts[i] = true
		}
	case SegRandom:
		for i := 0; i < 1+len(stream)/40; i++ {
			cuts[1+rng.Intn(len(stream))] = true
		}
	case SegInHeaders:
		start := 0
		for i, e := range ends {
			if i == 0 { // startup packet: untyped
				cuts[start+2] = true
			} else {
				cuts[start+1] = true
				cuts[start+3] = true
			}
			start = e.end
		}
	}
	conn.WaitQuiet(WaitTimeout) //nolint
	last, next := 0, 0
	for off := 1; off <= len(stream); off++ {
		if off == len(stream) || cuts[off] {
			var evs []mem.Ev
			for next < len(ends) && ends[next].end <= off {
				evs = append(evs, mem.Ev{"k": "send", "m": ends[next].m})
				next++
			}
			if conn.ServerClosed() {
				break
			}
			conn.Send(stream[last:off], evs...)
			last = off
		}
	}
	wedged := false
	if _, err := conn.WaitQuiet(WaitTimeout); err != nil {
		x.Log.Append(mem.Ev{"k": "wedged", "conn": conn.ID})
		wedged = true
	}
	if !wedged && !conn.ServerClosed() {
		conn.CloseClient()
		if err := conn.WaitClosed(WaitTimeout); err != nil {
			x.Log.Append(mem.Ev{"k": "wedged", "conn": conn.ID})
		}
	}
	x.Shutdown()
	x.Log.Append(mem.Ev{"k": "x-global", "conn": conn.ID, "m": paramsObj(x.Global), "tlsok": x.ConfigIntact()})
	x.Log.Append(mem.Ev{"k": "x-intact", "conn": conn.ID, "ok": x.Intact()})
	p := &Projector{Conn: conn.ID, Proj: proj, SkipPre: proj != nil && proj.SkipPreamble}
	for _, e := range x.Log.Events() {
		p.Feed(e)
	}
	p.Finish()
	out := append([]M{{"k": "cfg", "c": Clean(cfg)}}, p.Out...)
	return out, nil
}

// TranscriptDigest is the digest of everything the server did in an
// execution: the messages it sent and the callbacks it made, in order (the
// ParameterStatus block, whose order is that of a Go map, is sorted).
func TranscriptDigest(evs []M) string {
	var parts []string
	var block []string
	flush := func() {
		sort.Strings(block)
		parts = append(parts, block...)
		block = nil
	}
	for _, e := range evs {
		switch e["k"] {
		case "recv":
			b, _ := json.Marshal(e["m"])
			if S(AsM(e["m"]), "t") == "S" {
				block = append(block, string(b))
				continue
			}
			flush()
			parts = append(parts, string(b))
		case "cb":
			flush()
			b, _ := json.Marshal(e["c"])
			parts = append(parts, "cb"+string(b))
		case "close", "wedged", "crash":
			flush()
			parts = append(parts, fmt.Sprint(e["k"]))
		}
	}
	flush()
	return pgw.Dig([]byte(strings.Join(parts, "\n")))
}
