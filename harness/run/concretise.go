package run

import (
	"encoding/binary"
	"encoding/hex"
	"fmt"
	"github.com/jackc/pgx/v5/pgtype"
	"math/rand"
	"strings"
	"time"

	"verif/harness/pgw"
)

// Concretiser turns abstract client messages (the vocabulary of the TLA+
// specification) into bytes, choosing concrete names-preserving data with a
// seeded RNG and enriching the abstract message with the digests of what was
// chosen (so the trace carries them).
type Concretiser struct {
	InDig    uint64   // running digest of the bytes produced
	Ins      []uint64 // its value after each message
	X        *Exec
	Rng      *rand.Rand
	stmtOids map[string][]int // statement name -> declared parameter types of the last Parse sent under it
}

func formatOf(codes []any, i int) int {
	switch {
	case len(codes) == 0:
		return 0
	case len(codes) == 1:
		return AsInt(codes[0])
	case i < len(codes):
		return AsInt(codes[i])
	}
	return AsInt(codes[0])
}

func (c *Concretiser) randText(max int) string {
	n := c.Rng.Intn(max + 1)
	const alpha = "abcdefghijklmnopqrstuvwxyzABCDEFGHIJKLMNOPQRSTUVWXYZ0123456789 _-.,;:!?()[]{}<>=+*/%&|^~#@$'`"
	b := make([]byte, n)
	for i := range b {
		b[i] = alpha[c.Rng.Intn(len(alpha))]
	}
	return string(b)
}

func (c *Concretiser) randBytes(max int) []byte {
	n := c.Rng.Intn(max + 1)
	b := make([]byte, n)
	c.Rng.Read(b)
	return b
}

// prepScript registers a query script and returns its query text.
func (c *Concretiser) prepScript(q M) string {
	if q == nil {
		return ""
	}
	if S(q, "parse") == "blank" {
		ws := []string{"", " ", "  \t\n ", "\n", "\f", "\v", " \n\f\n ", "\t\v", "\u00a0", "\u2003 \u0085"}
		return ws[c.Rng.Intn(len(ws))]
	}
	id := I(q, "id")
	key := fmt.Sprintf("q%d", id)
	c.X.scripts[key] = q
	// enrich cells of row ops with values
	for _, sv := range L(q, "stmts") {
		st := AsM(sv)
		if _, has := st["id"]; !has {
			st["id"] = id
		}
		cols := L(st, "cols")
		if B(st, "anytype") {
			c.retype(st)
		}
		for _, ov := range L(st, "prog") {
			op := AsM(ov)
			if S(op, "op") != "row" {
				continue
			}
			for i, cv := range L(op, "cells") {
				cell := AsM(cv)
				oid := 25
				if i < len(cols) {
					oid = I(AsM(cols[i]), "oid")
				}
				ti := Types[oid]
				switch S(cell, "c") {
				case "v":
					if _, has := cell["_val"]; has {
						continue
					}
					if v, has := cell["val"]; has && oid == 25 {
						cell["_val"] = strings.TrimPrefix(fmt.Sprint(v), "s:")
						continue
					}
					if B(cell, "big") && (oid == 25 || oid == 1043) {
						// a value of tens of kilobytes (a document, a serialised object)
						big := c.randText(40000)
						for len(big) < 32768 {
							big += c.randText(40000)
						}
						cell["_val"], cell["val"] = big, pgw.Dig([]byte(big))
						continue
					}
					val, canon := ti.Gen(c.Rng)
					for canon == "" { // an empty rendering is the "empty" class
						val, canon = ti.Gen(c.Rng)
					}
					if c.Rng.Intn(3) == 0 {
						val = otherWidth(val, c.Rng) // the handler's Go type need not have the column's width
					}
					if _, isTime := val.(time.Time); isTime && c.Rng.Intn(3) == 0 {
						val = otherZone(oid, val.(time.Time), c.Rng) // nor need a time be given in UTC
					}
					if c.Rng.Intn(5) == 0 {
						val = pgtypeOf(oid, val) // ... or given as the pgtype value of the column's type
					}
					if c.Rng.Intn(4) == 0 && oid != 3802 {
						val = pointerTo(val) // a non-nil pointer to the value is the value
					}
					cell["_val"] = val
					cell["val"] = pgw.Dig([]byte(canon))
				case "tonly":
					// a value the handler supplies as its text rendering (a Go string) for an integer column:
					// encodable in text format only
					if oid != 21 && oid != 23 && oid != 20 {
						cell["c"] = "v" // (only meaningful for integer columns: an ordinary value otherwise)
						val, canon := ti.Gen(c.Rng)
						for canon == "" {
							val, canon = ti.Gen(c.Rng)
						}
						cell["_val"], cell["val"] = val, pgw.Dig([]byte(canon))
						continue
					}
					_, canon := ti.Gen(c.Rng)
					cell["_val"] = canon
					cell["val"] = pgw.Dig([]byte(canon))
				case "empty":
					cell["val"] = pgw.Dig(nil)
					cell["_val"] = ""
				case "null":
					cell["_val"] = TypedNull(oid, S(cell, "nk"))
				}
			}
		}
		if toks := L(st, "toks"); toks != nil {
			return key + " " + c.RenderToks(toks)
		}
	}
	if pad := I(q, "pad"); pad > 0 {
		// pad the query text with spaces to an exact body size (text + NUL)
		if len(key)+1 < pad {
			return key + strings.Repeat(" ", pad-len(key)-1)
		}
	}
	return key
}

// RenderToks renders a token sequence into query text with random filler.
func (c *Concretiser) RenderToks(toks []any) string {
	var sb strings.Builder
	for ti, tv := range toks {
		t := AsM(tv)
		switch S(t, "k") {
		case "text":
			sb.WriteString(c.fillerText())
		case "q":
			sb.WriteString("?")
		case "d":
			n := I(t, "n")
			if n < 0 {
				big := []string{"65536", "70000", "4294967296", "9223372036854775807", "9223372036854775808", "18446744073709551616", "99999999999999999999999999",
					// multiples of 2^64 plus a small remainder: no wrap-around turns them into small indexes
					"18446744073709551617", "18446744073709551619", "18446744073709617151", "36893488147419103237", "55340232221128654857", "340282366920938463463374607431768211457"}
				sb.WriteString("$" + big[c.Rng.Intn(len(big))])
			} else {
				// the same index may be written with leading zeros
				sb.WriteString("$" + strings.Repeat("0", []int{0, 0, 0, 1, 3, 6}[c.Rng.Intn(6)]) + fmt.Sprint(n))
			}
		}
		// markers may follow each other without anything in between ("$1$2", "$1?"): no separator then
		if ti+1 < len(toks) && S(AsM(toks[ti+1]), "k") != "text" && S(t, "k") != "text" && c.Rng.Intn(3) == 0 {
			continue
		}
		sb.WriteString(" ")
	}
	return sb.String()
}

func (c *Concretiser) fillerText() string {
	f := []string{"select", "a =", "from t where", "x", "and", "(", ")", "'str'", "1+1", "--", "\n"}
	return f[c.Rng.Intn(len(f))]
}

func int16s(l []any) []int16 {
	out := make([]int16, len(l))
	for i, v := range l {
		out[i] = int16(AsInt(v))
	}
	return out
}

// Bytes renders one abstract client message. It may enrich m.
// Bytes concretises one abstract message. A running digest of everything
// produced is kept: runs that must send the same bytes (the segmentations of
// one stream) are compared on it.
func (c *Concretiser) Bytes(m M) []byte {
	b := c.bytes0(m)
	if n := I(m, "_pad"); n > 0 && len(b) >= 5 {
		// surplus bytes behind the fields of the message, inside it: the handlers of these message types read
		// their fields and nothing else - the surplus belongs to this message and to no other
		switch S(m, "t") {
		case "S", "H", "X", "c", "f", "E", "D", "C", "Q", "P", "B":
			if len(b)-1+n <= c.X.EffLimit() {
				pad := make([]byte, n)
				c.Rng.Read(pad)
				b = append(append([]byte{}, b...), pad...)
				binary.BigEndian.PutUint32(b[1:5], uint32(len(b)-1))
			}
		}
	}
	for _, x := range b {
		c.InDig = (c.InDig ^ uint64(x)) * 1099511628211
	}
	c.InDig = (c.InDig ^ 0xff) * 1099511628211
	c.Ins = append(c.Ins, c.InDig)
	LastInputs = c.Ins
	return b
}

// LastInputs: the running input digest after each message of the concretiser
// used last (the drivers are sequential).
var LastInputs []uint64

func (c *Concretiser) bytes0(m M) []byte {
	switch S(m, "t") {
	case "Startup":
		var kvs [][2]string
		for _, kv := range L(m, "kvs") {
			p := AsM(kv)
			kvs = append(kvs, [2]string{S(p, "k"), S(p, "v")})
		}
		b := pgw.Startup(pgw.Version30, kvs, B(m, "term"))
		if tail := S(m, "tail"); tail != "" {
			// surplus bytes behind the terminator of the parameter list, inside the packet: never read
			// as parameters, and never as part of a later message
			b = pgw.Untyped(append(append([]byte{}, b[4:]...), append([]byte(tail), 0)...))
		}
		return b
	case "SSLRequest":
		if B(m, "stuffed") {
			// plaintext pushed in the same segment, ahead of the TLS handshake
			return append(pgw.SSLRequest(), c.stuffing()...)
		}
		return pgw.SSLRequest()
	case "GSSENC":
		return pgw.Untyped([]byte{0x04, 0xd2, 0x16, 0x30}) // 80877104
	case "Stuffed":
		return c.stuffing()
	case "Cancel":
		if c.Rng.Intn(4) != 0 { // realistic small process ids and keys (they contain zero bytes)
			return pgw.Cancel(uint32(c.Rng.Intn(70000)), uint32(c.Rng.Intn(70000)))
		}
		return pgw.Cancel(c.Rng.Uint32(), c.Rng.Uint32())
	case "p":
		if _, has := m["pwd"]; !has {
			m["pwd"] = S(m, "pw") + "-" + c.randText(8) // class, separator, random rest
		}
		return pgw.Password(S(m, "pwd"))
	case "Q":
		if f := S(m, "fit"); f != "" {
			q := Sub(m, "q")
			switch f {
			case "L":
				q["pad"] = c.X.EffLimit()
			case "Lm1":
				q["pad"] = c.X.EffLimit() - 1
			}
		}
		return pgw.Query(c.prepScript(Sub(m, "q")))
	case "P":
		oids := make([]uint32, I(m, "noids"))
		for i := range oids {
			// types prespecified by the frontend: the library does not use them, a statement's Describe
			// announces what the handler declared
			oids[i] = []uint32{0, 23, 25, 20, 16, 701, 1043, 2950, 23, 25}[c.Rng.Intn(10)]
		}
		if c.stmtOids == nil {
			c.stmtOids = map[string][]int{}
		}
		var declared []int
		if sts := L(Sub(m, "q"), "stmts"); len(sts) == 1 {
			for _, o := range L(AsM(sts[0]), "oids") {
				declared = append(declared, AsInt(o))
			}
		}
		c.stmtOids[S(m, "name")] = declared
		return pgw.Parse(S(m, "name"), c.prepScript(Sub(m, "q")), oids)
	case "B":
		var params [][]byte
		declared := c.stmtOids[S(m, "stmt")]
		for i, pv := range L(m, "params") {
			p := AsM(pv)
			if B(p, "null") {
				params = append(params, nil)
				continue
			}
			oid := 25
			if i < len(declared) && declared[i] != 0 {
				oid = declared[i]
			}
			var b []byte
			scan := ""
			if raw, has := p["_hex"]; has {
				b, _ = hex.DecodeString(fmt.Sprint(raw))
				scan = string(b)
			} else if cls, has := p["cls"]; has {
				switch cls {
				case "empty":
					b = []byte{}
				case "nul":
					b = append([]byte("a\x00b"), c.randBytes(6)...)
				default:
					val, canon := Types[oid].Gen(c.Rng)
					b = EncodeOwn(oid, formatOf(L(m, "pfmt"), i), val, canon)
					scan = canon
				}
				if cls != "short" {
					scan = string(b)
					if oid == 17 {
						scan = fmt.Sprintf("%x", b)
					}
				}
			} else if d, has := p["dig"]; has && strings.HasPrefix(fmt.Sprint(d), "s:") {
				b = []byte(strings.TrimPrefix(fmt.Sprint(d), "s:"))
				scan = string(b)
			} else {
				b = []byte("p" + c.randText(10))
				scan = string(b)
			}
			if b == nil {
				b = []byte{}
			}
			p["dig"] = pgw.Dig(b)
			p["scan"] = pgw.Dig([]byte(scan))
			delete(p, "cls")
			params = append(params, b)
		}
		return pgw.Bind(S(m, "portal"), S(m, "stmt"), int16s(L(m, "pfmt")), params, int16s(L(m, "rfmt")))
	case "D":
		return pgw.Describe(kindByte(S(m, "kind")), S(m, "name"))
	case "E":
		return pgw.Execute(S(m, "portal"), uint32(I(m, "max")))
	case "C":
		return pgw.Close(kindByte(S(m, "kind")), S(m, "name"))
	case "H":
		return pgw.Flush()
	case "S":
		return pgw.Sync()
	case "X":
		return pgw.Terminate()
	case "d":
		var b []byte
		if raw, has := m["_hex"]; has {
			b, _ = hex.DecodeString(fmt.Sprint(raw))
		} else {
			b = []byte("d" + c.randText(20))
		}
		m["dig"] = pgw.Dig(b)
		return pgw.CopyData(b)
	case "c":
		return pgw.CopyDone()
	case "f":
		return pgw.CopyFail("client " + c.randText(6))
	case "U":
		ty := []byte{'z', 'Z', '0', '!', 'A', 'a', 0x00, 0x7f, 0x80, 0xff, 'F', 0x01}[c.Rng.Intn(12)]
		if v, has := m["tyb"]; has {
			ty = byte(AsInt(v)) // the behaviour names the type byte
		}
		return pgw.Typed(ty, c.randBytes(8))
	case "Big":
		L := c.X.EffLimit()
		over := 0
		switch v := m["over"].(type) {
		case string:
			switch v {
			case "1":
				over = 1
			case "L":
				over = L
			case "Lp1":
				over = L + 1
			case "2Lp7":
				over = 2*L + 7
			}
		default:
			over = AsInt(v)
		}
		body := make([]byte, L+over)
		if S(m, "ty") == "Startup" {
			copy(body, []byte{0, 3, 0, 0})
			return pgw.Untyped(body)
		}
		ty := S(m, "ty")[0]
		if ty == 'U' {
			ty = 'z'
		}
		return pgw.Typed(ty, body)
	case "Tiny":
		if S(m, "ty") == "Startup" {
			return []byte{0, 0, 0, byte(I(m, "declared"))}
		}
		ty := S(m, "ty")[0]
		return pgw.TypedDeclared(ty, uint32(I(m, "declared")), nil)
	case "Huge":
		var declared uint32
		switch S(m, "declared") {
		case "2^31":
			declared = 1 << 31
		case "2^32-5":
			declared = 0xFFFFFFFB
		default:
			declared = 0xFFFFFFFF
		}
		return pgw.TypedDeclared(S(m, "ty")[0], declared, c.randBytes(I(m, "sent")))
	case "Bad":
		return c.badBytes(m)
	}
	panic("concretise: unknown abstract message " + S(m, "t"))
}

// badBytes renders a well-framed message whose body does not parse under its
// type (class: "nonul", "short", "count").
func (c *Concretiser) badBytes(m M) []byte {
	ty := S(m, "ty")
	cls := S(m, "cls")
	switch ty {
	case "Q":
		return pgw.Typed('Q', []byte("q1 no terminator"))
	case "P":
		switch cls {
		case "short":
			return pgw.Typed('P', []byte("a\x00q1\x00"))
		}
		return pgw.Typed('P', []byte("a\x00q1"))
	case "B":
		switch cls {
		case "count":
			// declares 3 parameters, carries one
			body := append([]byte("\x00\x00"), 0, 0, 0, 3, 0, 0, 0, 1, 'x')
			return pgw.Typed('B', body)
		case "short":
			return pgw.Typed('B', []byte("\x00\x00\x00"))
		}
		return pgw.Typed('B', []byte("portal-no-nul"))
	case "D":
		if cls == "short" {
			return pgw.Typed('D', nil)
		}
		return pgw.Typed('D', []byte("Sname"))
	case "E":
		if cls == "short" {
			return pgw.Typed('E', []byte("\x00\x00\x00"))
		}
		return pgw.Typed('E', []byte("portal"))
	case "p":
		if cls == "short" {
			return pgw.Typed('p', nil) // a password message without a body
		}
		return pgw.Typed('p', []byte("good-without-nul"))
	case "C":
		if cls == "short" {
			return pgw.Typed('C', nil)
		}
		return pgw.Typed('C', []byte("Sname-without-nul"))
	case "f":
		if cls == "short" {
			return pgw.Typed('f', nil) // a CopyFail without any body
		}
		return pgw.Typed('f', []byte("reason-without-nul"))
	case "Startup":
		if cls == "short" {
			return pgw.Untyped([]byte{0, 3}) // not even a protocol version
		}
		return pgw.Untyped(append([]byte{0, 3, 0, 0}, []byte("user-without-nul")...))
	}
	return pgw.Typed(ty[0], []byte("junk"))
}

// pointerTo returns a pointer to a copy of v for the basic Go types.
// pgtypeOf: the value as the valid pgtype value of the column's type (what handlers that scan with pgx pass on)
func pgtypeOf(oid int, v any) any {
	switch x := v.(type) {
	case bool:
		if oid == 16 {
			return pgtype.Bool{Bool: x, Valid: true}
		}
	case int16:
		if oid == 21 {
			return pgtype.Int2{Int16: x, Valid: true}
		}
	case int32:
		if oid == 23 {
			return pgtype.Int4{Int32: x, Valid: true}
		}
	case int64:
		if oid == 20 {
			return pgtype.Int8{Int64: x, Valid: true}
		}
	case float32:
		if oid == 700 {
			return pgtype.Float4{Float32: x, Valid: true}
		}
	case float64:
		if oid == 701 {
			return pgtype.Float8{Float64: x, Valid: true}
		}
	case string:
		if oid == 25 || oid == 1043 {
			return pgtype.Text{String: x, Valid: true}
		}
	case time.Time:
		if x.Location() != time.UTC {
			return v
		}
		switch oid {
		case 1082:
			return pgtype.Date{Time: x, Valid: true}
		case 1114:
			return pgtype.Timestamp{Time: x, Valid: true}
		case 1184:
			return pgtype.Timestamptz{Time: x, Valid: true}
		}
	}
	return v
}

func pointerTo(v any) any {
	switch x := v.(type) {
	case bool:
		return &x
	case int16:
		return &x
	case int32:
		return &x
	case int64:
		return &x
	case float32:
		return &x
	case float64:
		return &x
	case string:
		return &x
	}
	return v
}

var allTypes = []int{16, 21, 23, 20, 700, 701, 25, 1043, 17, 2950, 1082, 1114, 1184, 3802}

// retype assigns random column types to a statement whose model columns are
// placeholders; a column holding a non-NULL empty value needs a type whose
// encoding can be empty in both formats (text, varchar).
func (c *Concretiser) retype(st M) {
	cols := L(st, "cols")
	for j, cv := range cols {
		needEmpty := false
		for _, ov := range L(st, "prog") {
			op := AsM(ov)
			if S(op, "op") != "row" {
				continue
			}
			cells := L(op, "cells")
			if j < len(cells) && S(AsM(cells[j]), "c") == "empty" {
				needEmpty = true
			}
		}
		col := AsM(cv)
		if needEmpty {
			col["oid"] = []int{25, 1043}[c.Rng.Intn(2)]
		} else {
			col["oid"] = allTypes[c.Rng.Intn(len(allTypes))]
		}
		// values of a retyped column are generated afresh
		for _, ov := range L(st, "prog") {
			op := AsM(ov)
			if S(op, "op") != "row" {
				continue
			}
			cells := L(op, "cells")
			if j < len(cells) {
				cell := AsM(cells[j])
				if S(cell, "c") == "v" {
					delete(cell, "val")
					delete(cell, "_val")
				}
			}
		}
	}
	delete(st, "anytype")
}

// stuffing is plaintext protocol traffic a man in the middle might push ahead
// of the TLS handshake: a startup packet and a query that would run a script.
func (c *Concretiser) stuffing() []byte {
	c.X.scripts["q9999"] = M{"id": 9999, "parse": "ok", "stmts": []any{M{"id": 9999, "cols": []any{}, "oids": []any{},
		"prog": []any{M{"op": "complete", "tag": "INJECTED"}, M{"op": "ret", "r": "nil"}}}}}
	b := pgw.Startup(pgw.Version30, [][2]string{{"user", "mallory"}}, true)
	return append(b, pgw.Query("q9999")...)
}

// kindByte: the target byte of Describe / Close; "z" stands for a zero byte,
// "hi" for a byte beyond ASCII (neither 'S' nor 'P').
func kindByte(k string) byte {
	switch k {
	case "z":
		return 0
	case "hi":
		return 0xfe
	}
	return k[0]
}

// otherWidth hands an integer or float over in another Go type that holds the same value (an int64 for an
// int2 column, an int32 for an int8 column, a float32 for a float8 column): the column type decides the
// encoding, not the Go type.
// otherZone: the same value in another time zone. For a timestamp with time zone that is the same instant; a
// timestamp without time zone and a date are the wall clock / the calendar day as written, whatever the zone.
func otherZone(oid int, t time.Time, rng *rand.Rand) any {
	zone := time.FixedZone("", []int{3600, -8 * 3600, 5*3600 + 1800, 14 * 3600, -12 * 3600, 1}[rng.Intn(6)])
	switch oid {
	case 1184:
		return t.In(zone)
	case 1114, 1082:
		return time.Date(t.Year(), t.Month(), t.Day(), t.Hour(), t.Minute(), t.Second(), t.Nanosecond(), zone)
	}
	return t
}

func otherWidth(val any, rng *rand.Rand) any {
	asInt := func(v int64) any {
		cands := []any{v, int(v)}
		if v >= -1<<31 && v < 1<<31 {
			cands = append(cands, int32(v))
		}
		if v >= -1<<15 && v < 1<<15 {
			cands = append(cands, int16(v))
		}
		return cands[rng.Intn(len(cands))]
	}
	switch x := val.(type) {
	case int16:
		return asInt(int64(x))
	case int32:
		return asInt(int64(x))
	case int64:
		return asInt(x)
	case float32:
		return float64(x) // exactly representable
	}
	return val
}
