// Package run drives the real psql-wire server through the in-memory
// transport with scripted callbacks, and records what happened.
package run

import (
	"bytes"
	"context"
	"crypto/tls"
	"encoding/json"
	"errors"
	"fmt"
	"hash/fnv"
	"io"
	"log/slog"
	"net"
	"os"
	"sort"
	"strings"
	"sync"
	"time"

	"github.com/jackc/pgx/v5/pgtype"
	wire "github.com/jeroenrinzema/psql-wire"
	"github.com/jeroenrinzema/psql-wire/codes"
	pgerr "github.com/jeroenrinzema/psql-wire/errors"
	"github.com/jeroenrinzema/psql-wire/pkg/buffer"
	"github.com/jeroenrinzema/psql-wire/pkg/types"
	"github.com/lib/pq/oid"

	"verif/harness/mem"
	"verif/harness/pgw"
)

type M = map[string]any

// WaitTimeout bounds every wait for the server; it is only ever hit when the
// server hangs (reported as "wedged").
var WaitTimeout = 10 * time.Second

// ---- small accessors over decoded JSON ----

func S(m M, k string) string {
	if v, ok := m[k].(string); ok {
		return v
	}
	return ""
}
func I(m M, k string) int {
	switch v := m[k].(type) {
	case float64:
		return int(v)
	case int:
		return v
	case int64:
		return int(v)
	}
	return 0
}
func B(m M, k string) bool { v, _ := m[k].(bool); return v }
func L(m M, k string) []any {
	switch v := m[k].(type) {
	case []any:
		return v
	case []M:
		out := make([]any, len(v))
		for i := range v {
			out[i] = v[i]
		}
		return out
	}
	return nil
}
func Sub(m M, k string) M {
	if v, ok := m[k].(map[string]any); ok {
		return v
	}
	return nil
}
func AsM(v any) M {
	if m, ok := v.(map[string]any); ok {
		return m
	}
	return nil
}
func AsInt(v any) int {
	switch x := v.(type) {
	case float64:
		return int(x)
	case int:
		return x
	case int64:
		return int(x)
	}
	return 0
}

// Exec is one execution: one server, one log, one or more connections.
type Exec struct {
	termFails  bool
	colCache   map[string]wire.Columns
	Cfg        M
	Log        *mem.Log
	Lis        *mem.Listener
	Srv        *wire.Server
	Conns      []*mem.Conn
	Limit      int // configured message limit (bytes); 0 = library default
	scripts    map[string]M
	nextID     int
	served     chan error
	kept       []retained
	keptMaps   [][2]wire.Parameters // parameter maps callbacks kept, each with a copy of what it held then
	Sched      *Sched               // set when goroutines are under schedule control (C16 / C15)
	Global     wire.Parameters
	GlobalBase wire.Parameters // a map given to an earlier GlobalParameters option (replaced by the later one)
	TLS        *tls.Config     // the configuration handed to the server (the user's object) ...
	tlsSnap    *tls.Config     // ... and a copy taken before the server saw it
	ctxMu      sync.Mutex
	lastCtx    map[int]context.Context // per connection: context of the command whose callback ran last
	prevCtx    map[int]context.Context // per connection: context of the command before that one
}

type ctxKeyT int

const mwKey ctxKeyT = 1

func quietLogger() *slog.Logger {
	return slog.New(slog.NewTextHandler(io.Discard, &slog.HandlerOptions{Level: slog.LevelError + 4}))
}

// NewExec builds and starts a server for the abstract configuration.
func NewExec(cfg M) (*Exec, error) {
	x := &Exec{Cfg: cfg, Log: mem.NewLog(), scripts: map[string]M{}, served: make(chan error, 1),
		lastCtx: map[int]context.Context{}, prevCtx: map[int]context.Context{}}
	x.Lis = mem.NewListener(nil)
	x.Limit = I(cfg, "limit")
	if _, has := cfg["limit"]; !has {
		x.Limit = 8192
	}
	if S(cfg, "limit") == "sym" {
		x.Limit = 8192
		if v, ok := cfg["_limit"]; ok {
			x.Limit = AsInt(v)
		}
	}
	opts := []wire.OptionFn{wire.Logger(quietLogger()), wire.MessageBufferSize(x.Limit)}
	if S(cfg, "auth") == "clear" {
		opts = append(opts, wire.SessionAuthStrategy(wire.ClearTextPassword(x.validate)))
	}
	if a := S(cfg, "auth"); a == "custom-ok" || a == "custom-fail" {
		// an authentication strategy of the user's own: it sees the client parameters and either announces
		// AuthenticationOk itself or returns an error
		opts = append(opts, wire.SessionAuthStrategy(func(ctx context.Context, w *buffer.Writer, r *buffer.Reader) (context.Context, error) {
			cp := wire.ClientParameters(ctx)
			x.retainMap(cp)
			x.cb(ctx, M{"name": "auth", "user": cp[wire.ParamUsername], "db": cp[wire.ParamDatabase]})
			if a == "custom-fail" {
				return ctx, errors.New("not on the list")
			}
			w.Start(types.ServerAuth)
			w.AddInt32(0)
			return ctx, w.End()
		}))
	}
	if p := Sub(cfg, "params"); p != nil {
		g := wire.Parameters{}
		for k, v := range p {
			g[wire.ParameterStatus(k)] = fmt.Sprint(v)
		}
		x.Global = g
		if len(g)%2 == 1 {
			// the option may be given more than once (defaults first, then the deployment's map): the last one is
			// the map the server announces, and the earlier map stays what its owner made it
			x.GlobalBase = wire.Parameters{"verif_base_only": "1", "TimeZone": "base"}
			opts = append(opts, wire.GlobalParameters(x.GlobalBase))
		}
		opts = append(opts, wire.GlobalParameters(g))
	}
	if v := S(cfg, "version"); v != "" {
		opts = append(opts, wire.Version(v))
	}
	for i := range L(cfg, "mw") {
		idx := i + 1
		outcome := fmt.Sprint(L(cfg, "mw")[i])
		opts = append(opts, wire.SessionMiddleware(func(ctx context.Context) (context.Context, error) {
			return x.middleware(ctx, idx, outcome)
		}))
	}
	if S(cfg, "ctx") == "dead" {
		// the last session middleware hands the connection a context that has already ended
		opts = append(opts, wire.SessionMiddleware(func(ctx context.Context) (context.Context, error) {
			dead, cancel := context.WithCancel(ctx)
			cancel()
			return dead, nil
		}))
	}
	if t := S(cfg, "term"); t != "" && t != "none" {
		x.termFails = t == "fail"
		opts = append(opts, wire.TerminateConn(x.terminate))
	}
	// the close hook is always registered: it must stay silent for a CancelRequest (C12); for other
	// connections a call is not judged (the projection drops it)
	opts = append(opts, wire.CloseConn(func(ctx context.Context) error {
		x.cb(ctx, M{"name": "closeconn"})
		return nil
	}))
	if S(cfg, "cache") == "custom" {
		opts = append(opts,
			wire.Statements(func() wire.StatementCache { return &recStatements{x: x, inner: wire.DefaultStatementCacheFn()} }),
			wire.Portals(func() wire.PortalCache { return &recPortals{x: x, inner: wire.DefaultPortalCacheFn()} }))
	}
	for k := 0; k < I(cfg, "_ext"); k++ {
		// registered type extensions (any number of them): every connection still gets a type map of its own
		k := k
		opts = append(opts, wire.ExtendTypes(func(m *pgtype.Map) {
			m.RegisterType(&pgtype.Type{Name: fmt.Sprintf("verif_ext%d", k), OID: uint32(99001 + k), Codec: pgtype.TextCodec{}})
		}))
	}
	emptyViaField := false
	var tlsViaField, tlsLate *tls.Config
	var tlsLateCert tls.Certificate
	switch S(cfg, "tls") {
	case "empty":
		// an empty certificate list reaches the server through the option or through the exported field
		switch I(cfg, "_tlsfield") {
		case 1:
			emptyViaField = true
		case 2:
			// a list that is empty but not nil (room reserved for certificates loaded later)
			opts = append(opts, wire.TLSConfig(&tls.Config{Certificates: make([]tls.Certificate, 0, 4)}))
		default:
			opts = append(opts, wire.TLSConfig(&tls.Config{}))
		}
	case "cert":
		c, err := SelfSigned()
		if err != nil {
			return nil, err
		}
		tc := &tls.Config{Certificates: []tls.Certificate{c}}
		// settings of the TLS layer that leave the protocol above it alone: client certificates asked for but
		// optional (the harness's client presents none), a minimum version
		switch I(cfg, "_tlsvar") {
		case 1:
			tc.ClientAuth = tls.RequestClientCert
		case 2:
			tc.ClientAuth = tls.VerifyClientCertIfGiven
		case 3:
			tc.MinVersion = tls.VersionTLS12
		}
		switch I(cfg, "_tlsvar") {
		case 4:
			tlsViaField = tc // the configuration reaches the server through the exported field, not the option
		case 5:
			// the option is given a configuration that gets its certificate afterwards (still before Serve)
			late := &tls.Config{}
			opts = append(opts, wire.TLSConfig(late))
			tlsLate, tlsLateCert = late, c
			tc = late
		default:
			opts = append(opts, wire.TLSConfig(tc))
		}
		x.TLS, x.tlsSnap = tc, tc.Clone()
	}
	var parse wire.ParseFn = x.parse
	if S(cfg, "parser") == "nil" {
		parse = nil // a server that was given no parse function
	}
	srv, err := wire.NewServer(parse, opts...)
	if err != nil {
		return nil, err
	}
	if emptyViaField {
		srv.TLSConfig = &tls.Config{}
	}
	if tlsViaField != nil {
		srv.TLSConfig = tlsViaField
	}
	if tlsLate != nil {
		tlsLate.Certificates = []tls.Certificate{tlsLateCert}
		x.tlsSnap = tlsLate.Clone()
	}
	x.Srv = srv
	go func() { x.served <- srv.Serve(x.Lis) }()
	return x, nil
}

// ConfigIntact: every configuration object the user handed to the server is as the user made it.
func (x *Exec) ConfigIntact() bool {
	if x.GlobalBase != nil && (len(x.GlobalBase) != 2 || x.GlobalBase["verif_base_only"] != "1" || x.GlobalBase["TimeZone"] != "base") {
		return false
	}
	return x.TLSIntact()
}

// TLSIntact: the TLS configuration the user handed to the server is as the user made it (it is the user's object,
// shared by every connection: serving reads it).
func (x *Exec) TLSIntact() bool {
	if x.TLS == nil {
		return true
	}
	a, b := x.TLS, x.tlsSnap
	return a.MinVersion == b.MinVersion && a.MaxVersion == b.MaxVersion && a.ClientAuth == b.ClientAuth &&
		len(a.Certificates) == len(b.Certificates) && len(a.NextProtos) == len(b.NextProtos) &&
		len(a.CipherSuites) == len(b.CipherSuites) && len(a.CurvePreferences) == len(b.CurvePreferences) &&
		a.ServerName == b.ServerName && a.InsecureSkipVerify == b.InsecureSkipVerify &&
		a.SessionTicketsDisabled == b.SessionTicketsDisabled && a.ClientCAs == b.ClientCAs &&
		(a.GetCertificate == nil) == (b.GetCertificate == nil) && (a.GetConfigForClient == nil) == (b.GetConfigForClient == nil)
}

// EffLimit is the message limit in force (the library default for a
// non-positive setting).
func (x *Exec) EffLimit() int {
	if x.Limit <= 0 {
		return 1 << 24
	}
	return x.Limit
}

// SymLimits are the concrete limits a symbolic configuration ("sym") is
// instantiated with.
var SymLimits = []int{16, 17, 64, 4095, 4096, 4097, 8192, 65536}

// Dial opens a new in-memory connection to the server.
func (x *Exec) Dial() *mem.Conn {
	c := mem.NewConn(len(x.Conns)+1, x.Log)
	c.QuietReads = true
	// the kind of socket the server listens on makes no difference to the protocol
	c.Net = []string{"", "unix", "tcp", "unix"}[I(x.Cfg, "_tlsvar")%4]
	x.Conns = append(x.Conns, c)
	x.Lis.Dial(c) //nolint
	return c
}

// Stop closes the listener and every connection still open from the client side.
func (x *Exec) Stop() {
	for _, c := range x.Conns {
		if !c.ServerClosed() {
			c.CloseClient()
			c.WaitClosed(WaitTimeout) //nolint
		}
	}
	x.Lis.Close()
}

// Shutdown closes the server gracefully (this also ends the goroutine Serve
// started) and the listener.
func (x *Exec) Shutdown() {
	done := make(chan struct{})
	go func() {
		defer close(done)
		defer func() { recover() }() //nolint
		x.Srv.Close()                //nolint
	}()
	select {
	case <-done:
	case <-time.After(WaitTimeout):
	}
	x.Lis.Close()
}

// ---------- callbacks ----------

func (x *Exec) connOf(ctx context.Context) int {
	if a, ok := wire.RemoteAddress(ctx).(mem.Addr); ok {
		return a.ID
	}
	if len(x.Conns) == 1 {
		return 1
	}
	return 0
}

func (x *Exec) cb(ctx context.Context, c M) {
	c["intact"] = x.Intact()
	x.Log.Append(mem.Ev{"k": "cb", "conn": x.connOf(ctx), "c": c})
}

// retained is a piece of data the library handed to a callback, kept alive by
// the harness together with a private copy made at that moment (C18).
type retained struct {
	str  string
	live []byte
	copy []byte
	// a parameter handed to a statement function, kept as handed over (the holder reads it again later)
	param  *wire.Parameter
	isnull bool
}

func (x *Exec) retainStr(s string) {
	x.ctxMu.Lock()
	x.kept = append(x.kept, retained{str: s, copy: []byte(strings.Clone(s))})
	x.ctxMu.Unlock()
}

// retainMap: a callback keeps the parameter map it was given (not a copy of it)
func (x *Exec) retainMap(m wire.Parameters) {
	if m == nil {
		return
	}
	snap := wire.Parameters{}
	for k, v := range m {
		snap[k] = v
	}
	x.ctxMu.Lock()
	x.keptMaps = append(x.keptMaps, [2]wire.Parameters{m, snap})
	x.ctxMu.Unlock()
}

func (x *Exec) retainBytes(b []byte) {
	if b == nil {
		return
	}
	x.ctxMu.Lock()
	x.kept = append(x.kept, retained{live: b, copy: append([]byte{}, b...)})
	x.ctxMu.Unlock()
}

// Intact reports whether everything retained so far still has its exact content.
func (x *Exec) Intact() bool {
	x.ctxMu.Lock()
	defer x.ctxMu.Unlock()
	for _, pair := range x.keptMaps {
		if len(pair[0]) != len(pair[1]) {
			return false
		}
		for k, v := range pair[1] {
			if got, ok := pair[0][k]; !ok || got != v {
				return false
			}
		}
	}
	for _, r := range x.kept {
		if r.param != nil {
			v := r.param.Value()
			if (v == nil) != r.isnull || !bytes.Equal(v, r.copy) {
				return false
			}
		} else if r.live != nil {
			if !bytes.Equal(r.live, r.copy) {
				return false
			}
		} else if r.str != string(r.copy) {
			return false
		}
	}
	return true
}

func paramsObj(p wire.Parameters) M {
	o := M{}
	for k, v := range p {
		o[string(k)] = v
	}
	return o
}

// withCtx adds what a callback sees through its context to the record.
func (x *Exec) withCtx(ctx context.Context, rec M, command bool) M {
	chain := []any{}
	if v, ok := ctx.Value(mwKey).([]int); ok {
		for _, i := range v {
			chain = append(chain, i)
		}
	}
	rec["mw"] = chain
	rec["cp"] = paramsObj(wire.ClientParameters(ctx))
	rec["sp"] = paramsObj(wire.ServerParameters(ctx))
	a, ok := wire.RemoteAddress(ctx).(mem.Addr)
	rec["addr"] = ok && a.ID >= 1 && a.ID <= len(x.Conns)
	rec["tm"] = wire.TypeMap(ctx) != nil
	rec["au"] = wire.AuthenticatedUsername(ctx)
	rec["authv"], _ = ctx.Value(authKey).(string)
	rec["su"] = wire.IsSuperUser(ctx)
	if command {
		conn := x.connOf(ctx)
		rec["live"] = ctx.Err() == nil
		x.ctxMu.Lock()
		prev := x.lastCtx[conn]
		// a parser call always belongs to a new command (Parse or Query): whatever context the callback before it
		// was given belongs to an earlier command - also when it is the very same context again
		if prev != nil && (prev != ctx || rec["name"] == "parse") {
			x.prevCtx[conn] = prev
		}
		x.lastCtx[conn] = ctx
		pp := x.prevCtx[conn]
		x.ctxMu.Unlock()
		rec["prevdone"] = pp == nil || pp.Err() != nil
	}
	return rec
}

type authKeyT struct{}

var authKey = authKeyT{}

func (x *Exec) validate(ctx context.Context, database, username, password string) (context.Context, bool, error) {
	if x.Sched != nil {
		x.Sched.Gate(ctx, "validate.enter") // (a schedule may hold a login inside its validator call)
	}
	x.retainMap(wire.ClientParameters(ctx))
	x.retainStr(database)
	x.retainStr(username)
	x.retainStr(password)
	// the scripted verdict is the part of the password before the first '-'
	ret := "bad"
	cls := password
	if i := strings.IndexByte(password, '-'); i >= 0 {
		cls = password[:i]
	}
	switch cls {
	case "good", "err", "errc", "gooderr":
		ret = cls
	}
	x.cb(ctx, M{"name": "validate", "db": database, "user": username, "pw": password, "ret": ret})
	switch ret {
	case "good":
		// what the validator learnt travels with the context it returns
		return context.WithValue(ctx, authKey, username), true, nil
	case "err":
		return ctx, false, errors.New("validator failed")
	case "gooderr":
		return ctx, true, errors.New("the password matches but the login could not be recorded")
	case "errc":
		// a failure that carries a SQLSTATE and a severity of its own (an unknown database, say)
		return ctx, false, pgerr.WithSeverity(pgerr.WithCode(errors.New("database does not exist"), codes.Code("3D000")), pgerr.LevelFatal)
	}
	return ctx, false, nil
}

func (x *Exec) middleware(ctx context.Context, idx int, outcome string) (context.Context, error) {
	var chain []int
	if v, ok := ctx.Value(mwKey).([]int); ok {
		chain = v
	}
	seen := []any{}
	for _, i := range chain {
		seen = append(seen, i)
	}
	_ = seen
	for k, v := range wire.ClientParameters(ctx) {
		x.retainStr(string(k))
		x.retainStr(v)
	}
	x.cb(ctx, x.withCtx(ctx, M{"name": "mw", "i": idx}, false))
	if outcome == "failnil" {
		return nil, errors.New("middleware failed") // a failing handler may well return no context at all
	}
	if outcome != "ok" {
		return ctx, errors.New("middleware failed")
	}
	next := append(append([]int{}, chain...), idx)
	return context.WithValue(ctx, mwKey, next), nil
}

func (x *Exec) terminate(ctx context.Context) error {
	x.cb(ctx, x.withCtx(ctx, M{"name": "terminate"}, true))
	if x.termFails {
		return errors.New("the terminate hook failed") // the connection is closed all the same
	}
	return nil
}

// BuildErr constructs a real error value from the abstract description
// [base, layers (outermost first)] using the library's decorators.
func BuildErr(e M) error {
	if e == nil {
		return errors.New("boom")
	}
	err := errors.New(S(e, "base"))
	// a well-known sentinel as the root of the chain (what a handler gets from the library or the standard
	// library and passes on): reported like any other error, by its text
	for text, sentinel := range sentinels {
		if S(e, "base") == text {
			err = sentinel
		}
	}
	// error values are kept and decorated further, the way applications keep package-level errors: a chain that was
	// built before (in this process) is the same object again, and a longer chain is built on top of the object of
	// its inner part. Decorating an error does not change the error that is decorated.
	layers := L(e, "layers")
	keyOf := func(i int) string {
		b, _ := json.Marshal([]any{S(e, "base"), layers[i:]})
		return string(b)
	}
	errCacheMu.Lock()
	defer errCacheMu.Unlock()
	if len(errCacheMap) > 20000 {
		errCacheMap = map[string]error{}
	}
	start := len(layers) - 1
	for i := 0; i < len(layers); i++ {
		if c, ok := errCacheMap[keyOf(i)]; ok {
			err, start = c, i-1
			break
		}
	}
	for i := start; i >= 0; i-- {
		l := AsM(layers[i])
		v := S(l, "v")
		switch S(l, "d") {
		case "code":
			err = pgerr.WithCode(err, codes.Code(v))
		case "sev":
			err = pgerr.WithSeverity(err, pgerr.Severity(v))
		case "hint":
			err = pgerr.WithHint(err, v)
		case "detail":
			err = pgerr.WithDetail(err, v)
		case "cons":
			err = pgerr.WithConstraintName(err, v)
		case "wrap":
			err = fmt.Errorf("%s: %w", v, err)
		case "src":
			var line int
			fmt.Sscanf(S(l, "line"), "%d", &line)
			err = pgerr.WithSource(err, S(l, "file"), int32(line), S(l, "fn"))
		}
		errCacheMap[keyOf(i)] = err
	}
	return err
}

var (
	errCacheMu  sync.Mutex
	errCacheMap = map[string]error{}
)

var sentinels = map[string]error{
	io.EOF.Error():                 io.EOF,
	io.ErrUnexpectedEOF.Error():    io.ErrUnexpectedEOF,
	net.ErrClosed.Error():          net.ErrClosed,
	context.Canceled.Error():       context.Canceled,
	os.ErrDeadlineExceeded.Error(): os.ErrDeadlineExceeded,
}

// SentinelTexts are the texts of those sentinels (for the generators).
var SentinelTexts = []string{io.EOF.Error(), io.ErrUnexpectedEOF.Error(), net.ErrClosed.Error(), context.Canceled.Error(), os.ErrDeadlineExceeded.Error()}

func (x *Exec) parse(ctx context.Context, query string) (wire.PreparedStatements, error) {
	x.retainStr(query)
	x.retainMap(wire.ClientParameters(ctx))
	x.retainMap(wire.ServerParameters(ctx))
	for k, v := range wire.ClientParameters(ctx) {
		x.retainStr(string(k))
		x.retainStr(v)
	}
	key := strings.TrimSpace(query)
	if i := strings.IndexByte(key, ' '); i >= 0 {
		key = key[:i]
	}
	q := x.scripts[key]
	if q == nil {
		x.cb(ctx, x.withCtx(ctx, M{"name": "parse", "q": -1, "text": pgw.Dig([]byte(query))}, true))
		return nil, errors.New("harness: unknown script")
	}
	x.cb(ctx, x.withCtx(ctx, M{"name": "parse", "q": I(q, "id")}, true))
	if S(q, "parse") == "err" {
		return nil, BuildErr(Sub(q, "perr"))
	}
	var out wire.PreparedStatements
	for si, sv := range L(q, "stmts") {
		st := AsM(sv)
		idx := si + 1
		// the column definitions of a statement are built once and handed to the library every time the same
		// query text is parsed, on whichever connection (the way applications keep their table definitions):
		// the library only reads them
		colsig, _ := json.Marshal(st["cols"])
		ckey := fmt.Sprintf("%s/%d/%s", key, si, colsig)
		x.ctxMu.Lock()
		cols, cached := x.colCache[ckey]
		x.ctxMu.Unlock()
		if !cached {
			for _, cv := range L(st, "cols") {
				c := AsM(cv)
				col := wire.Column{Name: S(c, "name"), Oid: oid.Oid(I(c, "oid"))}
				// applications describe their columns with a width and a type modifier as well (varchar(n),
				// numeric(p,s)): descriptive fields - the values written are not altered to fit them
				h := fnv.New32a()
				h.Write([]byte(fmt.Sprintf("%s/%d", col.Name, col.Oid))) //nolint
				if k := h.Sum32(); k%3 == 0 || k%2 == 0 {
					col.TypeModifier = int32(5 + k%7)
					col.Width = int16(k%9) - 1
				}
				cols = append(cols, col)
			}
			x.ctxMu.Lock()
			if x.colCache == nil {
				x.colCache = map[string]wire.Columns{}
			}
			x.colCache[ckey] = cols
			x.ctxMu.Unlock()
		}
		opts := []wire.PreparedOptionFn{}
		if cols != nil {
			opts = append(opts, wire.WithColumns(cols))
		}
		if _, has := st["toks"]; has && !B(st, "nodeclare") {
			opts = append(opts, wire.WithParameters(wire.ParseParameters(query)))
		} else if os := L(st, "oids"); len(os) > 0 {
			// the way applications declare typed parameters: count the placeholders with the library's helper,
			// then write the types into the list it returned (the list is the caller's)
			var sb strings.Builder
			for i := range os {
				fmt.Fprintf(&sb, "$%d ", i+1)
			}
			po := wire.ParseParameters(sb.String())
			if len(po) != len(os) {
				po = make([]oid.Oid, len(os))
			}
			for i, o := range os {
				po[i] = oid.Oid(AsInt(o))
			}
			opts = append(opts, wire.WithParameters(po))
		}
		stc := st
		out = append(out, wire.NewStatement(func(ctx context.Context, w wire.DataWriter, params []wire.Parameter) error {
			return x.runStmt(ctx, w, params, stc, idx)
		}, opts...))
	}
	return wire.Prepared(out...), nil // the documented wrapper
}

// NullOf returns the Go value for a NULL cell of the given kind.
func NullOf(kind string) any {
	switch kind {
	case "ptr":
		return (*string)(nil)
	case "inv":
		return pgtype.Text{}
	}
	return nil
}

type unencodable struct{ Ch chan int } // (the exported channel makes it unencodable for the JSON codecs as well)

func cellValue(c M) any {
	if v, has := c["_val"]; has {
		return v
	}
	switch S(c, "c") {
	case "null":
		return NullOf(S(c, "nk"))
	case "empty":
		return ""
	case "bad":
		return unencodable{}
	}
	return strings.TrimPrefix(S(c, "val"), "s:")
}

var _ = NullOf

func retClass(err error) string {
	if err == nil {
		return "nil"
	}
	if err == io.EOF {
		return "eof"
	}
	return "err"
}

func (x *Exec) runStmt(ctx context.Context, w wire.DataWriter, params []wire.Parameter, st M, si int) error {
	ps := []any{}
	for i, p := range params {
		rec := M{"fmt": int(p.Format())}
		x.retainBytes(p.Value())
		x.ctxMu.Lock()
		x.kept = append(x.kept, retained{param: &params[i], isnull: p.Value() == nil, copy: append([]byte{}, p.Value()...)})
		x.ctxMu.Unlock()
		if p.Value() == nil {
			rec["null"] = true
		} else {
			rec["null"] = false
			rec["dig"] = pgw.Dig(p.Value())
			rec["scan"] = x.scanDig(p, st, i)
		}
		ps = append(ps, rec)
	}
	wcols := []any{}
	for _, c := range w.Columns() {
		wcols = append(wcols, c.Name)
	}
	x.cb(ctx, x.withCtx(ctx, M{"name": "stmt.start", "def": I(st, "id"), "si": si, "params": ps, "wcols": wcols}, true))
	var cr *wire.CopyReader
	for _, ov := range L(st, "prog") {
		op := AsM(ov)
		switch S(op, "op") {
		case "row":
			cells := L(op, "cells")
			vals := make([]any, len(cells))
			for i, cv := range cells {
				vals[i] = cellValue(AsM(cv))
			}
			err := w.Row(vals)
			x.cb(ctx, M{"name": "dw.row", "ret": retClass(err), "written": int(w.Written())})
		case "complete":
			err := w.Complete(S(op, "tag"))
			x.cb(ctx, M{"name": "dw.complete", "ret": retClass(err), "written": int(w.Written())})
		case "empty":
			err := w.Empty()
			x.cb(ctx, M{"name": "dw.empty", "ret": retClass(err), "written": int(w.Written())})
		case "copyin":
			r, err := w.CopyIn(wire.FormatCode(I(op, "fmt")))
			if err == nil {
				cr = r
			}
			ev := M{"name": "dw.copyin", "ret": retClass(err), "written": int(w.Written())}
			if err == nil {
				rcols := []any{}
				for _, c := range r.Columns() {
					rcols = append(rcols, c.Name)
				}
				ev["rcols"] = rcols
			}
			x.cb(ctx, ev)
		case "copyread":
			if cr == nil {
				continue
			}
			err := cr.Read()
			rec := M{"name": "copy.read", "ret": retClass(err), "dig": ""}
			if err == nil {
				rec["dig"] = pgw.Dig(cr.Msg)
			} else {
				cr = nil
			}
			x.cb(ctx, rec)
			if err != nil && err != io.EOF && S(op, "onerr") == "ret" {
				return err // the documented use: propagate a failed read
			}
		case "bincopy":
			if cr != nil {
				berr := x.binCopy(ctx, cr, st)
				cr = nil
				if berr != nil && S(op, "onerr") == "ret" {
					return berr // the statement function passes the row reader's error on
				}
			}
		case "gate":
			if x.Sched != nil {
				x.Sched.Gate(ctx, S(op, "p"))
			}
		case "panic":
			// a statement function that panics: inside Execute the library recovers and reports an error
			panic("scripted handler panic")
		case "ret":
			if S(op, "r") == "nil" {
				return nil
			}
			return BuildErr(Sub(op, "err"))
		}
	}
	return nil
}

// scanDig decodes a parameter with the library's own decoder, requesting the
// type the statement declared for it (text when undeclared), and returns the
// digest of the canonical rendering of the result.
func (x *Exec) scanDig(p wire.Parameter, st M, i int) string {
	o := 25
	if os := L(st, "oids"); i < len(os) && AsInt(os[i]) != 0 {
		o = AsInt(os[i])
	}
	v, err := p.Scan(uint32(o))
	if err != nil {
		return "!err"
	}
	return pgw.Dig([]byte(CanonGo(o, v)))
}

// ---------- helpers for drivers ----------

// SortedKeys returns the sorted keys of a map.
func SortedKeys(m M) []string {
	ks := make([]string, 0, len(m))
	for k := range m {
		ks = append(ks, k)
	}
	sort.Strings(ks)
	return ks
}
