package run

import (
	"encoding/binary"
	"encoding/hex"
	"fmt"
	"math"
	"math/rand"
	"strconv"
	"strings"
	"time"

	"github.com/jackc/pgx/v5/pgtype"

	"verif/harness/pgw"
)

// Independent text/binary decoders for the supported column types, and value
// generators. The canonical rendering of a value ("canon") is what the
// specification compares: canon(value written by the handler) must equal
// canon(decode(field bytes, announced format)).

type TypeInfo struct {
	OID    int
	Name   string
	Gen    func(r *rand.Rand) (val any, canon string) // random value incl. boundaries
	Text   func(b []byte) (string, bool)              // decode text format -> canon
	Binary func(b []byte) (string, bool)              // decode binary format -> canon
	Empty  func() (val any, ok bool)                  // a non-NULL value whose encoding is empty (text format)
	Null   func(kind string) any                      // typed NULLs
}

var pgEpoch = time.Date(2000, 1, 1, 0, 0, 0, 0, time.UTC)

func canonInt(v int64) string { return strconv.FormatInt(v, 10) }
func canonFloat(v float64, bits int) string {
	switch {
	case math.IsNaN(v):
		return "NaN"
	case math.IsInf(v, 1):
		return "Infinity"
	case math.IsInf(v, -1):
		return "-Infinity"
	}
	return strconv.FormatFloat(v, 'g', -1, bits)
}

func parseFloatText(b []byte, bits int) (string, bool) {
	s := string(b)
	switch strings.ToLower(s) {
	case "nan":
		return "NaN", true
	case "infinity", "+infinity", "inf", "+inf":
		return "Infinity", true
	case "-infinity", "-inf":
		return "-Infinity", true
	}
	f, err := strconv.ParseFloat(s, bits)
	if err != nil {
		return "", false
	}
	return canonFloat(f, bits), true
}

func intType(oid int, name string, size int, min, max int64) *TypeInfo {
	return &TypeInfo{OID: oid, Name: name,
		Gen: func(r *rand.Rand) (any, string) {
			var v int64
			switch r.Intn(8) {
			case 0:
				v = min
			case 1:
				v = max
			case 2:
				v = 0
			case 3:
				v = -1
			default:
				v = min + int64(r.Uint64()%uint64(max-min)) // not uniform at the very top; irrelevant
				if max == math.MaxInt64 {
					v = int64(r.Uint64())
				}
			}
			switch size {
			case 2:
				return int16(v), canonInt(v)
			case 4:
				return int32(v), canonInt(v)
			}
			return v, canonInt(v)
		},
		Text: func(b []byte) (string, bool) {
			v, err := strconv.ParseInt(string(b), 10, size*8)
			return canonInt(v), err == nil
		},
		Binary: func(b []byte) (string, bool) {
			if len(b) != size {
				return "", false
			}
			switch size {
			case 2:
				return canonInt(int64(int16(binary.BigEndian.Uint16(b)))), true
			case 4:
				return canonInt(int64(int32(binary.BigEndian.Uint32(b)))), true
			}
			return canonInt(int64(binary.BigEndian.Uint64(b))), true
		},
	}
}

func textType(oid int, name string) *TypeInfo {
	return &TypeInfo{OID: oid, Name: name,
		Gen: func(r *rand.Rand) (any, string) {
			n := 1 + r.Intn(40)
			if r.Intn(20) == 0 {
				n = 5000 + r.Intn(5000)
			}
			var sb strings.Builder
			for i := 0; i < n; i++ {
				switch r.Intn(12) {
				case 0:
					sb.WriteRune(rune(0x80 + r.Intn(0x2000)))
				case 1:
					sb.WriteString([]string{"'", "\"", "\\", "\n", "\t", "é", "日本", "😀"}[r.Intn(8)])
				default:
					sb.WriteByte(byte(0x20 + r.Intn(0x5f)))
				}
			}
			s := strings.ToValidUTF8(sb.String(), "?")
			return s, s
		},
		Text:   func(b []byte) (string, bool) { return string(b), true },
		Binary: func(b []byte) (string, bool) { return string(b), true },
		Empty:  func() (any, bool) { return "", true },
	}
}

var Types = map[int]*TypeInfo{}

func init() {
	reg := func(t *TypeInfo) { Types[t.OID] = t }
	reg(&TypeInfo{OID: 16, Name: "bool",
		Gen: func(r *rand.Rand) (any, string) {
			if r.Intn(2) == 0 {
				return true, "t"
			}
			return false, "f"
		},
		Text: func(b []byte) (string, bool) {
			switch string(b) {
			case "t", "true":
				return "t", true
			case "f", "false":
				return "f", true
			}
			return "", false
		},
		Binary: func(b []byte) (string, bool) {
			if len(b) != 1 || b[0] > 1 {
				return "", false
			}
			if b[0] == 1 {
				return "t", true
			}
			return "f", true
		}})
	reg(intType(21, "int2", 2, math.MinInt16, math.MaxInt16))
	reg(intType(23, "int4", 4, math.MinInt32, math.MaxInt32))
	reg(intType(20, "int8", 8, math.MinInt64, math.MaxInt64))
	reg(&TypeInfo{OID: 700, Name: "float4",
		Gen: func(r *rand.Rand) (any, string) {
			var v float32
			switch r.Intn(8) {
			case 0:
				v = 0
			case 1:
				v = math.MaxFloat32
			case 2:
				v = math.SmallestNonzeroFloat32
			case 3:
				v = float32(math.Inf(1))
			case 4:
				v = float32(math.Inf(-1))
			case 5:
				v = float32(math.NaN())
			default:
				v = math.Float32frombits(r.Uint32())
				if v != v {
					v = 1.5
				}
			}
			return v, canonFloat(float64(v), 32)
		},
		Text: func(b []byte) (string, bool) { return parseFloatText(b, 32) },
		Binary: func(b []byte) (string, bool) {
			if len(b) != 4 {
				return "", false
			}
			return canonFloat(float64(math.Float32frombits(binary.BigEndian.Uint32(b))), 32), true
		}})
	reg(&TypeInfo{OID: 701, Name: "float8",
		Gen: func(r *rand.Rand) (any, string) {
			var v float64
			switch r.Intn(8) {
			case 0:
				v = 0
			case 1:
				v = math.MaxFloat64
			case 2:
				v = math.SmallestNonzeroFloat64
			case 3:
				v = math.Inf(1)
			case 4:
				v = math.Inf(-1)
			case 5:
				v = math.NaN()
			default:
				v = math.Float64frombits(r.Uint64())
				if v != v {
					v = 2.25
				}
			}
			return v, canonFloat(v, 64)
		},
		Text: func(b []byte) (string, bool) { return parseFloatText(b, 64) },
		Binary: func(b []byte) (string, bool) {
			if len(b) != 8 {
				return "", false
			}
			return canonFloat(math.Float64frombits(binary.BigEndian.Uint64(b)), 64), true
		}})
	reg(textType(25, "text"))
	reg(textType(1043, "varchar"))
	// jsonb: a document given as its text; the binary format is a version byte (1) in front of the text
	reg(&TypeInfo{OID: 3802, Name: "jsonb",
		Gen: func(r *rand.Rand) (any, string) {
			docs := []string{`{"name": "x", "n": %d}`, `[%d, 2, 3]`, `%d`, `{"a": {"b": [true, null, %d]}}`, `"text %d"`}
			d := fmt.Sprintf(docs[r.Intn(len(docs))], r.Intn(100000))
			return d, d
		},
		Text: func(b []byte) (string, bool) { return string(b), true },
		Binary: func(b []byte) (string, bool) {
			if len(b) < 1 || b[0] != 1 {
				return "", false
			}
			return string(b[1:]), true
		}})
	reg(&TypeInfo{OID: 17, Name: "bytea",
		Gen: func(r *rand.Rand) (any, string) {
			n := 1 + r.Intn(64)
			b := make([]byte, n)
			r.Read(b)
			if r.Intn(4) == 0 {
				b[r.Intn(n)] = 0
			}
			return b, hex.EncodeToString(b)
		},
		Text: func(b []byte) (string, bool) {
			if len(b) < 2 || b[0] != '\\' || b[1] != 'x' {
				return "", false
			}
			d, err := hex.DecodeString(string(b[2:]))
			return hex.EncodeToString(d), err == nil
		},
		Binary: func(b []byte) (string, bool) { return hex.EncodeToString(b), true },
		Empty:  func() (any, bool) { return nil, false }, // text rendering of empty bytea is "\x": not empty
	})
	reg(&TypeInfo{OID: 2950, Name: "uuid",
		Gen: func(r *rand.Rand) (any, string) {
			var u [16]byte
			r.Read(u[:])
			switch r.Intn(6) {
			case 0:
				u = [16]byte{}
			case 1:
				for i := range u {
					u[i] = 0xff
				}
			}
			return pgtype.UUID{Bytes: u, Valid: true}, canonUUID(u[:])
		},
		Text: func(b []byte) (string, bool) {
			s := strings.ReplaceAll(string(b), "-", "")
			d, err := hex.DecodeString(s)
			if err != nil || len(d) != 16 || len(b) != 36 {
				return "", false
			}
			return canonUUID(d), true
		},
		Binary: func(b []byte) (string, bool) {
			if len(b) != 16 {
				return "", false
			}
			return canonUUID(b), true
		}})
	reg(&TypeInfo{OID: 1082, Name: "date",
		Gen: func(r *rand.Rand) (any, string) {
			var days int64
			switch r.Intn(6) {
			case 0:
				days = 0
			case 1:
				days = -730119 // 0001-01-01
			case 2:
				days = 2921939 // 9999-12-31
			default:
				days = int64(r.Intn(3652058)) - 730119
			}
			t := pgEpoch.AddDate(0, 0, int(days))
			return t, canonInt(days)
		},
		Text: func(b []byte) (string, bool) {
			t, err := time.Parse("2006-01-02", string(b))
			if err != nil {
				return "", false
			}
			return canonInt(int64(math.Floor(float64(t.Unix()-pgEpoch.Unix()) / 86400))), true
		},
		Binary: func(b []byte) (string, bool) {
			if len(b) != 4 {
				return "", false
			}
			return canonInt(int64(int32(binary.BigEndian.Uint32(b)))), true
		}})
	tsGen := func(r *rand.Rand) (time.Time, int64) {
		var us int64
		switch r.Intn(6) {
		case 0:
			us = 0
		case 1:
			us = -63082281600000000 // 0001-01-01 00:00:00
		case 2:
			us = 252455615999999999 // 9999-12-31 23:59:59.999999
		default:
			us = r.Int63n(252455615999999999+63082281600000000) - 63082281600000000
		}
		sec := us / 1000000
		rem := us % 1000000
		if rem < 0 {
			rem += 1000000
			sec--
		}
		return time.Unix(sec+pgEpoch.Unix(), rem*1000).UTC(), us
	}
	reg(&TypeInfo{OID: 1114, Name: "timestamp",
		Gen: func(r *rand.Rand) (any, string) { t, us := tsGen(r); return t, canonInt(us) },
		Text: func(b []byte) (string, bool) {
			t, err := time.Parse("2006-01-02 15:04:05.999999999", string(b))
			if err != nil {
				return "", false
			}
			return canonInt(usSinceEpoch(t)), true
		},
		Binary: func(b []byte) (string, bool) {
			if len(b) != 8 {
				return "", false
			}
			return canonInt(int64(binary.BigEndian.Uint64(b))), true
		}})
	reg(&TypeInfo{OID: 1184, Name: "timestamptz",
		Gen: func(r *rand.Rand) (any, string) { t, us := tsGen(r); return t, canonInt(us) },
		Text: func(b []byte) (string, bool) {
			for _, layout := range []string{"2006-01-02 15:04:05.999999999Z07:00:00", "2006-01-02 15:04:05.999999999Z07:00", "2006-01-02 15:04:05.999999999Z07"} {
				t, err := time.Parse(layout, string(b))
				if err == nil {
					return canonInt(usSinceEpoch(t)), true
				}
			}
			return "", false
		},
		Binary: func(b []byte) (string, bool) {
			if len(b) != 8 {
				return "", false
			}
			return canonInt(int64(binary.BigEndian.Uint64(b))), true
		}})
	CellCanon = func(oid int, format int, raw []byte) string {
		c, _ := DecodeCell(oid, format, raw)
		return c
	}
}

// time.Duration overflows beyond ~292 years: compute microseconds by parts.
func usSinceEpoch(t time.Time) int64 {
	return (t.Unix()-pgEpoch.Unix())*1000000 + int64(t.Nanosecond()/1000)
}
func overflowFix(t time.Time) int64 {
	// t.Sub saturates for large spans; recompute exactly and return the correction
	exact := usSinceEpoch(t)
	return exact - t.Sub(pgEpoch).Microseconds()
}

func canonUUID(b []byte) string {
	h := hex.EncodeToString(b)
	return fmt.Sprintf("%s-%s-%s-%s-%s", h[0:8], h[8:12], h[12:16], h[16:20], h[20:32])
}

// DecodeCell decodes a received field in the announced format with the
// harness's own decoders and returns the digest of its canonical rendering,
// and the encoding it was actually found in (the announced format when it
// decodes in it; otherwise the other format if that decodes; otherwise -1).
func DecodeCell(oid int, format int, raw []byte) (canon string, enc int) {
	t := Types[oid]
	if t == nil {
		return pgw.Dig(raw), format
	}
	dec := func(f int) (string, bool) {
		if f == 1 {
			return t.Binary(raw)
		}
		return t.Text(raw)
	}
	if c, ok := dec(format); ok {
		return pgw.Dig([]byte(c)), format
	}
	if c, ok := dec(1 - format); ok {
		return pgw.Dig([]byte(c)), 1 - format
	}
	return "!undecodable:" + pgw.Dig(raw), -1
}

// TypedNull returns a NULL of the given kind for the column type.
func TypedNull(oid int, kind string) any {
	if oid == 3802 {
		// (for a jsonb column pgx marshals whatever it is given as a document - a nil pointer or an invalid nullable
		// becomes the document null, which is a value: that is pgx's business; the NULL of a jsonb column is nil)
		return nil
	}
	switch kind {
	case "ptr":
		switch oid {
		case 16:
			return (*bool)(nil)
		case 21:
			return (*int16)(nil)
		case 23:
			return (*int32)(nil)
		case 20:
			return (*int64)(nil)
		case 700:
			return (*float32)(nil)
		case 701:
			return (*float64)(nil)
		case 17:
			return (*[]byte)(nil)
		case 1082, 1114, 1184:
			return (*time.Time)(nil)
		case 2950:
			// a nil *pgtype.UUID makes pgx call a value-receiver method through the nil pointer (pgx's own
			// behaviour, outside the library under test): use a nil pointer to the plain Go representation
			return (*[16]byte)(nil)
		}
		return (*string)(nil)
	case "inv":
		switch oid {
		case 16:
			return pgtype.Bool{}
		case 21:
			return pgtype.Int2{}
		case 23:
			return pgtype.Int4{}
		case 20:
			return pgtype.Int8{}
		case 700:
			return pgtype.Float4{}
		case 701:
			return pgtype.Float8{}
		case 1082:
			return pgtype.Date{}
		case 1114:
			return pgtype.Timestamp{}
		case 1184:
			return pgtype.Timestamptz{}
		case 2950:
			return pgtype.UUID{}
		case 17:
			return (*[]byte)(nil)
		case 1043, 25:
			return pgtype.Text{}
		}
		return pgtype.Text{}
	}
	return nil
}

// ---------- the harness's own encoders (client side: Bind parameters, binary COPY) ----------

// EncodeOwn renders val (as produced by Types[oid].Gen) in the given format
// without using the library or pgx.
func EncodeOwn(oid int, format int, val any, canon string) []byte {
	be := func(n int, v uint64) []byte {
		b := make([]byte, 8)
		binary.BigEndian.PutUint64(b, v)
		return b[8-n:]
	}
	if format == 0 {
		switch oid {
		case 17:
			return []byte("\\x" + canon)
		case 1082:
			d, _ := strconv.ParseInt(canon, 10, 64)
			return []byte(pgEpoch.AddDate(0, 0, int(d)).Format("2006-01-02"))
		case 1114:
			return []byte(val.(time.Time).Format("2006-01-02 15:04:05.999999"))
		case 1184:
			return []byte(val.(time.Time).Format("2006-01-02 15:04:05.999999Z07:00"))
		}
		return []byte(canon)
	}
	switch oid {
	case 16:
		if val.(bool) {
			return []byte{1}
		}
		return []byte{0}
	case 21:
		return be(2, uint64(uint16(val.(int16))))
	case 23:
		return be(4, uint64(uint32(val.(int32))))
	case 20:
		return be(8, uint64(val.(int64)))
	case 700:
		return be(4, uint64(math.Float32bits(val.(float32))))
	case 701:
		return be(8, math.Float64bits(val.(float64)))
	case 17:
		return val.([]byte)
	case 2950:
		u := val.(pgtype.UUID).Bytes
		return u[:]
	case 1082:
		d, _ := strconv.ParseInt(canon, 10, 64)
		return be(4, uint64(uint32(int32(d))))
	case 1114, 1184:
		us, _ := strconv.ParseInt(canon, 10, 64)
		return be(8, uint64(us))
	}
	return []byte(canon)
}

// CanonGo renders a Go value returned by the library's decoders (Parameter.Scan,
// the binary COPY row reader) canonically for the given type.
func CanonGo(oid int, v any) string {
	if v == nil {
		return "<nil>"
	}
	switch x := v.(type) {
	case bool:
		if x {
			return "t"
		}
		return "f"
	case int16:
		return canonInt(int64(x))
	case int32:
		return canonInt(int64(x))
	case int64:
		return canonInt(x)
	case int:
		return canonInt(int64(x))
	case float32:
		return canonFloat(float64(x), 32)
	case float64:
		if oid == 700 {
			return canonFloat(x, 32)
		}
		return canonFloat(x, 64)
	case string:
		return x
	case []byte:
		return hex.EncodeToString(x)
	case [16]byte:
		return canonUUID(x[:])
	case pgtype.UUID:
		return canonUUID(x.Bytes[:])
	case time.Time:
		if oid == 1082 {
			return canonInt(int64(math.Floor(float64(x.Unix()-pgEpoch.Unix()) / 86400)))
		}
		return canonInt(usSinceEpoch(x))
	}
	return fmt.Sprintf("?%T:%v", v, v)
}

func newTypeMap() *pgtype.Map { return pgtype.NewMap() }
