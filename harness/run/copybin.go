package run

import (
	"context"
	"encoding/binary"
	"fmt"
	"io"
	"math/rand"

	wire "github.com/jeroenrinzema/psql-wire"

	"verif/harness/mem"
	"verif/harness/pgw"
)

// Binary COPY scenarios (PgCopyBin.tla): the harness encodes the stream with
// its own encoders, cuts it into CopyData messages at the byte offsets that
// correspond to the scenario's cell positions (plus optional extra byte-level
// cuts), and a handler reads it through the library's NewBinaryColumnReader.

var copySignature = []byte("PGCOPY\n\377\r\n\000")

// types whose binary values have at least two bytes (a value of 2 cells is cut in the middle)
var binTypes2 = []int{21, 23, 20, 700, 701, 2950, 1082, 1114, 1184}
var binTypes1 = []int{16, 21, 23, 20, 700, 701, 25, 1043, 17, 2950, 1082, 1114, 1184}

type binStream struct {
	bytes []byte
	cells []int // cells[i] = byte offset just after cell i+1
}

func (b *binStream) add(parts ...[]byte) {
	for _, p := range parts {
		b.bytes = append(b.bytes, p...)
		b.cells = append(b.cells, len(b.bytes))
	}
}

func u16(v int) []byte { x := make([]byte, 2); binary.BigEndian.PutUint16(x, uint16(v)); return x }
func u32(v int) []byte { x := make([]byte, 4); binary.BigEndian.PutUint32(x, uint32(v)); return x }

// BuildCopyBin concretises a scenario: picks column types and values, encodes
// the stream, returns column oids, the bytes, the cell boundaries. The scenario's
// fields are enriched with the canonical digests of the values ("val").
func BuildCopyBin(scn M, rng *rand.Rand) (oids []int, st *binStream) {
	table := L(scn, "table")
	ncols := I(scn, "ncols")
	// column types: a column that holds a 2-cell value needs >= 2 bytes; an "e" field needs a type with an empty encoding
	oids = make([]int, ncols)
	for j := 0; j < ncols; j++ {
		need2, needEmpty := false, false
		for _, rv := range table {
			row := rv.([]any)
			if j < len(row) {
				f := AsM(row[j])
				if S(f, "c") == "v" && I(f, "n") >= 2 {
					need2 = true
				}
				if S(f, "c") == "e" {
					needEmpty = true
				}
			}
		}
		widthCol := S(Sub(scn, "corrupt"), "kind") == "width" && I(Sub(scn, "corrupt"), "col") == j+1
		switch {
		case widthCol:
			oids[j] = []int{23, 20, 700, 701, 1082, 1114}[rng.Intn(6)] // fixed width of at least four bytes
		case needEmpty:
			oids[j] = []int{25, 1043, 17}[rng.Intn(3)]
		case need2:
			oids[j] = binTypes2[rng.Intn(len(binTypes2))]
		default:
			oids[j] = binTypes1[rng.Intn(len(binTypes1))]
		}
	}
	// "twins": every column has another 8-byte type, and within a row all of them carry the very same bytes
	// (an int8, a float8 and two timestamps that happen to be encoded alike): each field is decoded under the type of
	// its own column
	twins := false
	if ncols >= 2 && I(scn, "_i")%5 == 2 && S(Sub(scn, "corrupt"), "kind") != "width" {
		twins = true
		for j := 0; j < ncols; j++ {
			for _, rv := range table {
				if row := rv.([]any); j < len(row) && S(AsM(row[j]), "c") == "e" {
					twins = false
				}
			}
		}
		if twins {
			perm := rng.Perm(4)
			for j := 0; j < ncols; j++ {
				oids[j] = []int{20, 701, 1114, 1184}[perm[j%4]]
			}
		}
	}
	st = &binStream{}
	if B(scn, "hdr") {
		// flags: the low 16 bits are free for the sender; then the length of the header extension area and the
		// area itself (one cell of the scenario = a non-empty run of bytes), which a reader skips
		var ext [][]byte
		extLen := 0
		for i := 0; i < I(scn, "ext"); i++ {
			cell := make([]byte, 1+rng.Intn(6))
			rng.Read(cell)
			ext = append(ext, cell)
			extLen += len(cell)
		}
		flags := 0
		if len(ext) > 0 || rng.Intn(4) == 0 {
			flags = rng.Intn(1 << 16)
		}
		st.add(copySignature[:5], copySignature[5:], u32(flags), u32(extLen))
		st.add(ext...)
	}
	corrupt := Sub(scn, "corrupt")
	for ri, rv := range table {
		row := rv.([]any)
		twinRaw := make([]byte, 8)
		twinRaw[7] = byte(1 + rng.Intn(200))
		twinRaw[6] = byte(rng.Intn(3))
		cnt := len(row)
		if S(corrupt, "kind") == "cnt" && I(corrupt, "row") == ri+1 {
			cnt = I(corrupt, "to")
		}
		c := u16(cnt)
		st.add(c[:1], c[1:])
		for j, fv := range row {
			f := AsM(fv)
			// a length word corrupted to a value far beyond what the stream holds
			huge := S(corrupt, "kind") == "len" && I(corrupt, "row") == ri+1 && I(corrupt, "col") == j+1
			hugeLen := []int{0x7FFFFFFF, 0x80000000, 0xFFFFFFFE, 1 << 30, 0xC0000000}[rng.Intn(5)]
			switch S(f, "c") {
			case "null":
				l := u32(-1)
				if huge {
					l = u32(hugeLen)
				}
				st.add(l[:2], l[2:])
			case "e":
				l := u32(0)
				if huge {
					l = u32(hugeLen)
				}
				st.add(l[:2], l[2:])
				f["val"] = pgw.Dig(nil)
			default:
				oid := 25
				if j < len(oids) {
					oid = oids[j]
				}
				n := I(f, "n")
				var enc []byte
				var canon string
				for tries := 0; ; tries++ {
					val, c := Types[oid].Gen(rng)
					enc = EncodeOwn(oid, 1, val, c)
					canon = c
					if len(enc) >= n && len(enc) > 0 {
						break
					}
				}
				if twins {
					enc = append([]byte{}, twinRaw...)
					canon, _ = Types[oid].Binary(enc)
				}
				f["val"] = pgw.Dig([]byte(canon))
				if S(corrupt, "kind") == "width" && I(corrupt, "row") == ri+1 && I(corrupt, "col") == j+1 {
					// framing intact, but the value has not the size of the column's type
					if S(corrupt, "how") == "short" {
						enc = enc[:len(enc)-1-rng.Intn(2)]
					} else {
						extra := make([]byte, []int{1, 2, 4, 4, 8}[rng.Intn(5)])
						rng.Read(extra)
						enc = append(append([]byte{}, enc...), extra...)
					}
				}
				l := u32(len(enc))
				if huge {
					l = u32(hugeLen)
				}
				st.add(l[:2], l[2:])
				// n cells: split the value into n non-empty pieces
				step := len(enc) / n
				for i := 0; i < n; i++ {
					lo, hi := i*step, (i+1)*step
					if i == n-1 {
						hi = len(enc)
					}
					st.add(enc[lo:hi])
				}
			}
		}
	}
	if B(scn, "trailer") {
		t := u16(0xFFFF)
		st.add(t[:1], t[1:])
	}
	return oids, st
}

// PlayCopyBin runs one scenario through the real server and returns the
// abstract trace for Trace_PgCopyBin.
func PlayCopyBin(scn M, rng *rand.Rand) ([]M, error) {
	oids, st := BuildCopyBin(scn, rng)
	stream := st.bytes
	corrupt := Sub(scn, "corrupt")
	if S(corrupt, "kind") == "trunc" {
		at := I(corrupt, "at")
		end := 0
		if at > 0 {
			end = st.cells[at-1]
		}
		if B(corrupt, "mid") && at < len(st.cells) {
			// strictly inside the next cell (when it has more than one byte), else keep the boundary
			lo, hi := end, st.cells[at]
			if hi-lo >= 2 {
				end = lo + 1 + rng.Intn(hi-lo-1)
			} else {
				corrupt["mid"] = false
			}
		}
		stream = stream[:end]
	}
	// chunk boundaries: the scenario's cell cuts + extra byte cuts
	cut := map[int]bool{}
	for _, cv := range L(scn, "cuts") {
		c := AsInt(cv)
		if c >= 1 && c <= len(st.cells) {
			if off := st.cells[c-1]; off < len(stream) {
				cut[off] = true
			}
		}
	}
	for _, bv := range L(scn, "bytecuts") {
		if off := AsInt(bv); off > 0 && off < len(stream) {
			cut[off] = true
		}
	}
	var chunks [][]byte
	last := 0
	for off := 1; off < len(stream); off++ {
		if cut[off] {
			chunks = append(chunks, stream[last:off])
			last = off
		}
	}
	chunks = append(chunks, stream[last:])
	if B(scn, "emptychunks") {
		// zero-length CopyData messages are legal
		chunks = append([][]byte{{}}, chunks...)
		chunks = append(chunks, []byte{})
	}

	limit := I(scn, "limit")
	if limit <= 0 {
		limit = 1 << 20
	} else {
		// a small message size limit: every CopyData message fits it (pieces between half the limit and the
		// limit), however the stream was cut before - reassembled rows may well be longer than one message
		var fit [][]byte
		for _, ch := range chunks {
			for len(ch) > limit {
				n := limit/2 + 1 + rng.Intn(limit/2)
				fit = append(fit, ch[:n])
				ch = ch[n:]
			}
			fit = append(fit, ch)
		}
		chunks = fit
	}
	cfg := M{"auth": "none", "tls": "nil", "params": M{}, "version": "", "mw": []any{}, "term": "none", "limit": limit}
	x, err := NewExec(cfg)
	if err != nil {
		return nil, err
	}
	conn := x.Dial()
	cols := []any{}
	for j, o := range oids {
		cols = append(cols, M{"name": fmt.Sprintf("c%d", j), "oid": o})
	}
	// the handler either swallows a failure of the row reader and completes, or returns it (the COPY then
	// fails: one ErrorResponse, one ReadyForQuery, and the connection goes on)
	mode := "swallow"
	if rng.Intn(2) == 0 {
		mode = "ret"
	}
	q := M{"id": 1, "parse": "ok", "stmts": []any{M{"id": 1, "cols": cols, "oids": []any{},
		"prog": []any{M{"op": "copyin", "fmt": 1}, M{"op": "bincopy", "onerr": mode}, M{"op": "complete", "tag": "COPY"}, M{"op": "ret", "r": "nil"}}}}}
	x.scripts["q1"] = q
	x.scripts["q2"] = M{"id": 2, "parse": "ok", "stmts": []any{M{"id": 2, "cols": []any{}, "oids": []any{},
		"prog": []any{M{"op": "complete", "tag": "PROBE"}, M{"op": "ret", "r": "nil"}}}}}
	conn.WaitQuiet(WaitTimeout) //nolint
	conn.Send(pgw.Startup(pgw.Version30, [][2]string{{"user", "u"}}, true))
	conn.WaitQuiet(WaitTimeout) //nolint
	startMsg := pgw.Query("q1")
	if I(scn, "_i")%3 == 1 && len(stream) > 0 && len(stream)+16 < limit {
		// surplus bytes inside the message that starts the COPY, behind the terminator of the query text, shaped
		// like the COPY stream itself (or like a lone tuple): rows come from CopyData messages only
		surplus := stream
		if rng.Intn(2) == 0 {
			surplus = []byte{0, 1, 0, 0, 0, 4, 0, 0, 0, 42}
		}
		startMsg = pgw.Typed('Q', append(append([]byte("q1"), 0), surplus...))
	}
	conn.Send(startMsg)
	conn.WaitQuiet(WaitTimeout) //nolint
	for _, ch := range chunks {
		conn.Send(pgw.CopyData(ch))
	}
	conn.Send(pgw.CopyDone())
	wedged := false
	if _, err := conn.WaitQuiet(WaitTimeout); err != nil {
		wedged = true
	}
	if !wedged && !conn.ServerClosed() {
		conn.Send(pgw.Query("q2")) // the connection is still in step: the next query is answered
		if _, err := conn.WaitQuiet(WaitTimeout); err != nil {
			wedged = true
		}
	}
	if !wedged && !conn.ServerClosed() {
		conn.CloseClient()
		if conn.WaitClosed(WaitTimeout) != nil {
			wedged = true
		}
	}
	x.Shutdown()
	clean := Clean(scn).(map[string]any)
	delete(clean, "cuts")
	delete(clean, "bytecuts")
	delete(clean, "limit")
	out := []M{{"k": "scn", "s": clean}}
	for _, e := range x.Log.Events() {
		if e["k"] != "cb" {
			continue
		}
		c := AsM(e["c"])
		switch S(c, "name") {
		case "bin.row":
			out = append(out, M{"k": "row", "fields": c["fields"]})
		case "bin.end":
			out = append(out, M{"k": "end", "ret": c["ret"]})
		case "bin.again":
			out = append(out, M{"k": "again", "ret": c["ret"]})
		}
	}
	// the conversation from the CopyInResponse on: kinds of the backend messages
	pj := &Projector{Conn: conn.ID}
	for _, e := range x.Log.Events() {
		pj.Feed(e)
	}
	pj.Finish()
	kinds := []any{}
	seenG := false
	for _, o := range pj.Out {
		if o["k"] != "recv" {
			continue
		}
		t := S(AsM(o["m"]), "t")
		if t == "G" {
			seenG = true
			continue
		}
		if seenG {
			kinds = append(kinds, t)
		}
	}
	conv := M{"k": "conv", "mode": mode, "kinds": kinds}
	if wedged {
		out = append(out, M{"k": "wedged"})
	}
	if last := out[len(out)-1]; last["k"] != "end" && last["k"] != "again" && last["k"] != "wedged" {
		out = append(out, M{"k": "end", "ret": "missing"}) // the reader never reported how the stream ended
	}
	out = append(out, conv)
	return out, nil
}

// binCopy is the handler operation: read every row through the library's
// binary row reader and report what it returned.
func (x *Exec) binCopy(ctx context.Context, cr *wire.CopyReader, st M) error {
	r, err := wire.NewBinaryColumnReader(ctx, cr)
	if err != nil {
		x.cb(ctx, M{"name": "bin.end", "ret": "err"})
		return err
	}
	cols := L(st, "cols")
	for n := 0; n < 100000; n++ {
		row, err := r.Read(ctx)
		if err == io.EOF {
			x.cb(ctx, M{"name": "bin.end", "ret": "eof"})
			// the end of the stream is final: reading again says so again
			_, err2 := r.Read(ctx)
			x.cb(ctx, M{"name": "bin.again", "ret": retClass(err2)})
			return nil
		}
		if err != nil {
			x.cb(ctx, M{"name": "bin.end", "ret": "err"})
			return err
		}
		fields := []any{}
		for j, v := range row {
			if v == nil {
				fields = append(fields, M{"c": "null"})
				continue
			}
			oid := 25
			if j < len(cols) {
				oid = I(AsM(cols[j]), "oid")
			}
			canon := CanonGo(oid, v)
			if canon == "" {
				fields = append(fields, M{"c": "e"})
			} else {
				fields = append(fields, M{"c": "v", "val": pgw.Dig([]byte(canon))})
			}
		}
		x.cb(ctx, M{"name": "bin.row", "fields": fields})
	}
	x.cb(ctx, M{"name": "bin.end", "ret": "runaway"})
	return nil
}

var _ = mem.ErrTimeout
