package run

import (
	"crypto/tls"
	"fmt"
	"math/rand"
	"sort"
	"sync"
	"time"

	wire "github.com/jeroenrinzema/psql-wire"

	"verif/harness/mem"
	"verif/harness/pgw"
)

// PlayMulti runs several sessions concurrently on one server, interleaved as
// a TLC-generated schedule prescribes (sends, and releases of statement
// functions parked at a gate). All connections deliberately use the same
// statement and portal names, different users and different row types. The
// result is one abstract trace PER CONNECTION: each must be a behaviour of
// the single-connection specification, i.e. what that client's traffic
// produces on a server that serves it alone.
func PlayMulti(beh M, rng *rand.Rand, proj *Projection) ([][]M, error) {
	cfg := M{"auth": "none", "tls": "nil", "params": M{"shared": "x"}, "version": "15", "mw": []any{"ok"}, "term": "ok", "limit": 65536}
	cfg["_ext"] = []int{0, 1, 3, 5}[I(beh, "_i")%4] // type extensions registered: none, one, several
	if I(beh, "_i")%5 == 2 {
		cfg["auth"] = "clear" // overlapping password logins of different users
	}
	if I(beh, "_i")%4 == 1 {
		// earlier in the life of the process a connection carried only a CancelRequest (what client libraries
		// send when a query times out): it leaves no trace on the connections served afterwards
		if x0, err := NewExec(cfg); err == nil {
			cc := x0.Dial()
			cc.Send(pgw.Cancel(1, 2))
			cc.WaitClosed(WaitTimeout) //nolint
			x0.Shutdown()
		}
	}
	if I(beh, "_i")%6 == 5 {
		// the server is configured for TLS; before the sessions of the schedule, two clients upgrade at the same time
		// (both have their 'S' before either starts its handshake): the TLS configuration is shared by all
		// connections and only read
		cfg["tls"] = "cert"
	}
	x, err := NewExec(cfg)
	if err != nil {
		return nil, err
	}
	tlsOK := true
	if S(cfg, "tls") == "cert" {
		var ups []*mem.Conn
		for k := 0; k < 2; k++ {
			u := x.Dial()
			u.Send(pgw.SSLRequest())
			u.WaitQuiet(WaitTimeout) //nolint
			ups = append(ups, u)
		}
		var wg sync.WaitGroup
		for _, u := range ups {
			wg.Add(1)
			go func(u *mem.Conn) {
				defer wg.Done()
				u.SkipRaw(u.PendingRaw())
				tc := tls.Client(mem.ClientEnd{C: u}, &tls.Config{InsecureSkipVerify: true})
				hs := make(chan error, 1)
				go func() { hs <- tc.Handshake() }()
				select {
				case <-hs:
				case <-time.After(WaitTimeout):
				}
				u.CloseClient()
				u.WaitClosed(WaitTimeout) //nolint
			}(u)
		}
		wg.Wait()
		tlsOK = x.TLSIntact()
	}
	if I(beh, "_i")%8 == 7 {
		// earlier in the life of this server a good many cancel requests came in (client libraries send one for every
		// query that timed out): they use nothing up that later connections need
		for k := 0; k < 70; k++ {
			cc := x.Dial()
			cc.Send(pgw.Cancel(uint32(k+1), 77))
			cc.WaitClosed(WaitTimeout) //nolint
		}
	}
	s := NewSched(x)
	s.OnlyPark = map[string]bool{"h.enter": true}
	s.ParkOnce = map[string]string{}
	x.Sched = s
	wire.SetVerifHook(s.Hook)
	defer wire.SetVerifHook(nil)

	plans := L(beh, "plans")
	nc := len(plans)
	conns := make([]*mem.Conn, nc)
	czs := make([]*Concretiser, nc)
	next := make([]int, nc)
	nid := 0
	rowTypes := []int{23, 25, 16, 701, 17, 20}
	// now and then somebody else has connected first and says nothing for as long as the sessions last (a port
	// scanner, a health check that only opens the socket, a client stalled in its start-up): nobody waits for it
	var silent *mem.Conn
	if I(beh, "_i")%4 == 0 {
		silent = x.Dial()
	}
	// the clients connect in a burst: every connection is queued at the listener before the first one is waited for
	for c := 0; c < nc; c++ {
		conns[c] = x.Dial()
		czs[c] = &Concretiser{X: x, Rng: rng}
	}
	for c := 0; c < nc; c++ {
		conns[c].WaitQuiet(WaitTimeout) //nolint
	}
	actor := func(c int) string { return fmt.Sprintf("c%d", conns[c].ID) }
	send := func(c int, m M, wait bool) {
		b := czs[c].Bytes(m)
		conns[c].Send(b, mem.Ev{"k": "send", "m": m})
		if wait {
			s.settleConn(conns[c], actor(c))
		}
	}
	// startup: concurrently connecting users (sequential sends, each session comes up on its own)
	// (every third execution: all start-up packets are on their way before the first session is waited for - the
	// sessions come up at the same time; user names differ in length)
	overlap := I(beh, "_i")%3 == 1
	sameCreds := S(cfg, "auth") == "clear" && I(beh, "_i")%10 == 2
	for c := 0; c < nc; c++ {
		user := fmt.Sprintf("user%d", c+1)
		if sameCreds {
			user = "shared_role"
		} else if overlap && c%2 == 1 {
			user = fmt.Sprintf("user%d_with_a_rather_long_name", c+1)
		}
		kvs := []any{M{"k": "user", "v": user}, M{"k": "database", "v": fmt.Sprintf("db%d", c+1)}}
		if c%2 == 0 {
			kvs = append(kvs, M{"k": "application_name", "v": fmt.Sprintf("app%d", c+1)})
		}
		send(c, M{"t": "Startup", "term": true, "kvs": kvs}, !overlap)
	}
	if overlap {
		for c := 0; c < nc; c++ {
			s.settleConn(conns[c], actor(c))
		}
	}
	if S(cfg, "auth") == "clear" {
		// every connection has been asked for its password before the first one answers: each login is
		// validated with its own user and database
		if sameCreds {
			// ... also when the logins carry the same user name and password (for different databases) and the
			// first one is still inside the validator when the others arrive
			s.mu.Lock()
			s.ParkOnce[actor(0)] = "validate.enter"
			s.mu.Unlock()
		}
		for c := 0; c < nc; c++ {
			pm := M{"t": "p", "pw": "good"}
			if sameCreds {
				pm["pwd"] = "good-same"
			}
			send(c, pm, true)
		}
		if sameCreds && s.settle(actor(0)) == "parked" {
			s.release(actor(0))
			for c := 0; c < nc; c++ {
				s.settleConn(conns[c], actor(c))
			}
		}
	}
	group := func(c int, kind string) {
		nid++
		id := 1000*(c+1) + nid
		oid := rowTypes[(c+nid)%len(rowTypes)]
		col := []any{M{"name": fmt.Sprintf("v%d", id), "oid": oid}}
		// a second, text column whose value is NULL on one connection and empty on the next: whatever one
		// session's NULL leaves behind must not turn another session's empty value into NULL
		col = append(col, M{"name": fmt.Sprintf("w%d", id), "oid": 25})
		second := []M{{"c": "null", "nk": "nil"}, {"c": "empty"}, {"c": "empty"}, {"c": "v"}}[(c+nid+I(beh, "_i"))%4]
		row := func(first M) []any {
			cell := M{"c": second["c"]} // a fresh cell: concretisation writes into it
			if nk, has := second["nk"]; has {
				cell["nk"] = nk
			}
			return []any{first, cell}
		}
		switch kind {
		case "x":
			// a statement whose first row cannot be encoded (the error is reported to the handler), then a good row
			st := M{"id": id, "cols": col, "oids": []any{}, "prog": []any{M{"op": "row", "cells": row(M{"c": "bad"})}, M{"op": "row", "cells": row(M{"c": "v"})}, M{"op": "complete", "tag": "X"}, M{"op": "ret", "r": "nil"}}}
			send(c, M{"t": "Q", "q": M{"id": id, "parse": "ok", "stmts": []any{st}}}, true)
			return
		case "e":
			// the connection is held right after its row value was encoded, before the value is put on the wire
			s.mu.Lock()
			s.ParkOnce[actor(c)] = "encode.exit"
			s.mu.Unlock()
			st := M{"id": id, "cols": col, "oids": []any{}, "prog": []any{M{"op": "row", "cells": row(M{"c": "v"})}, M{"op": "complete", "tag": "E"}, M{"op": "ret", "r": "nil"}}}
			send(c, M{"t": "Q", "q": M{"id": id, "parse": "ok", "stmts": []any{st}}}, true)
			return
		}
		if kind == "g" {
			// a simple Query whose statement function parks at a gate, then writes a row
			st := M{"id": id, "cols": col, "oids": []any{}, "prog": []any{M{"op": "gate", "p": "h.enter"}, M{"op": "row", "cells": row(M{"c": "v"})}, M{"op": "complete", "tag": "G"}, M{"op": "ret", "r": "nil"}}}
			send(c, M{"t": "Q", "q": M{"id": id, "parse": "ok", "stmts": []any{st}}}, true)
			return
		}
		// Parse a / Bind p<-a / Describe p / Execute p / Sync: same names on every connection
		if (nid+I(beh, "_i"))%3 == 0 {
			// ... and now and then the very same query text on every connection: each Parse consults the parser
			// with its own connection's context
			id = 900
			col = []any{M{"name": "shared", "oid": 25}, M{"name": "w900", "oid": 25}}
		}
		st := M{"id": id, "cols": col, "oids": []any{}, "prog": []any{M{"op": "row", "cells": row(M{"c": "v"})}, M{"op": "complete", "tag": "M"}, M{"op": "ret", "r": "nil"}}}
		send(c, M{"t": "P", "name": "a", "q": M{"id": id, "parse": "ok", "stmts": []any{st}}, "noids": 0}, true)
		send(c, M{"t": "B", "portal": "p", "stmt": "a", "pfmt": []any{}, "params": []any{M{"null": false, "cls": "short"}}, "rfmt": []any{}}, true)
		send(c, M{"t": "E", "portal": "p", "max": 0}, true)
		send(c, M{"t": "S"}, true)
	}
	for _, ov := range L(beh, "order") {
		o := AsM(ov)
		c := I(o, "c") - 1
		switch S(o, "act") {
		case "send":
			kinds := plans[c].([]any)
			if next[c] < len(kinds) {
				group(c, fmt.Sprint(kinds[next[c]]))
				next[c]++
			}
		case "release":
			if s.settle(actor(c)) == "parked" {
				s.release(actor(c))
				s.settleConn(conns[c], actor(c))
			}
		}
	}
	s.releaseAll()
	if I(beh, "_i")%3 == 2 {
		// a connection accepted after the others are in their sessions: it starts up like the others did
		// (the first of them has gone by then), and writes a row: with a type map of its own, not one that served
		// another connection before
		if !conns[0].ServerClosed() {
			conns[0].WaitQuiet(WaitTimeout) //nolint
			conns[0].CloseClient()
			if conns[0].WaitClosed(WaitTimeout) != nil {
				x.Log.Append(mem.Ev{"k": "wedged", "conn": conns[0].ID})
			}
		}
		late := x.Dial()
		late.Send(pgw.Startup(pgw.Version30, [][2]string{{"user", "late"}, {"application_name", "late-batch"}}, true))
		late.WaitQuiet(WaitTimeout) //nolint
		x.scripts["q950"] = M{"id": 950, "parse": "ok", "stmts": []any{M{"id": 950, "cols": []any{M{"name": "late", "oid": 25}}, "oids": []any{},
			"prog": []any{M{"op": "row", "cells": []any{M{"c": "v", "_val": "late", "val": "s:late"}}}, M{"op": "complete", "tag": "LATE"}, M{"op": "ret", "r": "nil"}}}}}
		late.Send(pgw.Query("q950"))
		late.WaitQuiet(WaitTimeout)                                         //nolint
		defer func() { late.CloseClient(); late.WaitClosed(WaitTimeout) }() //nolint
	}
	for c := 0; c < nc; c++ {
		if !conns[c].ServerClosed() {
			if _, err := conns[c].WaitQuiet(WaitTimeout); err != nil {
				x.Log.Append(mem.Ev{"k": "wedged", "conn": conns[c].ID})
			}
			if I(beh, "_i")%2 == 1 && S(cfg, "auth") != "clear" {
				// the sessions end with Terminate: the terminate hook runs once for each of them
				send(c, M{"t": "X"}, false)
				if conns[c].WaitClosed(WaitTimeout) != nil {
					x.Log.Append(mem.Ev{"k": "wedged", "conn": conns[c].ID})
				}
				continue
			}
			conns[c].CloseClient()
			if conns[c].WaitClosed(WaitTimeout) != nil {
				x.Log.Append(mem.Ev{"k": "wedged", "conn": conns[c].ID})
			}
		}
	}
	if silent != nil {
		silent.CloseClient()
		silent.WaitClosed(WaitTimeout) //nolint
	}
	x.Shutdown()
	// which type maps did each connection encode with?
	s.mu.Lock()
	mapsOf := map[string][]int{}
	for a, ids := range s.MapsOf {
		for id := range ids {
			mapsOf[a] = append(mapsOf[a], id)
		}
		sort.Ints(mapsOf[a])
	}
	partsOf := map[string][]int{}
	for a, ids := range s.PartsOf {
		for id := range ids {
			partsOf[a] = append(partsOf[a], id)
		}
		sort.Ints(partsOf[a])
	}
	s.mu.Unlock()
	var out [][]M
	evs := x.Log.Events()
	for c := 0; c < nc; c++ {
		p := &Projector{Conn: conns[c].ID, Proj: proj, SkipPre: proj != nil && proj.SkipPreamble}
		for _, e := range evs {
			if _, has := e["conn"]; !has {
				continue
			}
			if e["k"] == "rel" || e["k"] == "hook" {
				continue
			}
			p.Feed(e)
		}
		p.Finish()
		own := []any{}
		for _, id := range mapsOf[actor(c)] {
			own = append(own, id)
		}
		others := []any{}
		for a, ids := range mapsOf {
			if a != actor(c) {
				for _, id := range ids {
					others = append(others, id)
				}
			}
		}
		parts, otherParts := []any{}, []any{}
		for a, ids := range partsOf {
			for _, id := range ids {
				if a == actor(c) {
					parts = append(parts, id)
				} else {
					otherParts = append(otherParts, id)
				}
			}
		}
		tr := append([]M{{"k": "cfg", "c": Clean(cfg)}}, p.Out...)
		tr = append(tr, M{"k": "x-maps", "own": own, "others": others, "parts": parts, "otherparts": otherParts})
		tr = append(tr, M{"k": "x-global", "m": paramsObj(x.Global), "tlsok": tlsOK && x.ConfigIntact()})
		out = append(out, tr)
	}
	return out, nil
}
