package run

import (
	"context"
	"encoding/binary"
	"math/rand"
	"runtime"

	wire "github.com/jeroenrinzema/psql-wire"

	"verif/harness/mem"
	"verif/harness/pgw"
)

// PlayJunk sends input that the abstract vocabulary cannot classify - random
// bytes, mutated valid streams, count bombs, gigabyte headers - on a fresh
// connection or after a valid startup, optionally with a handler that feeds
// client data to the library's helpers, then ends the input and probes the
// server with a fresh connection. Returns the trace for Trace_Robust.
func PlayJunk(scn M, rng *rand.Rand) ([]M, error) {
	L := []int{64, 4096, 8192, 65536}[rng.Intn(4)]
	cfg := M{"auth": "none", "tls": "nil", "params": M{}, "version": "", "mw": []any{}, "term": "none", "limit": L}
	if S(scn, "kind") == "helpers" {
		return helperFuzz(rng), nil
	}
	x, err := NewExec(cfg)
	if err != nil {
		return nil, err
	}
	conn := x.Dial()
	conn.WaitQuiet(WaitTimeout) //nolint
	out := []M{{"k": "cfg", "probe": false}}
	wedged := false
	live := false // measure what is still held afterwards (after a collection) instead of what was allocated in passing
	sendMeasured := func(b []byte) {
		var before, after runtime.MemStats
		if live {
			runtime.GC()
		}
		runtime.ReadMemStats(&before)
		conn.Send(b, mem.Ev{"k": "junk", "n": len(b)})
		if _, err := conn.WaitQuiet(WaitTimeout); err != nil {
			wedged = true
		}
		if live {
			runtime.GC()
		}
		runtime.ReadMemStats(&after)
		// what the input made the process take: heap allocation, and stack (a goroutine that nests deeper with
		// every message keeps its memory on the stack)
		grown := after.TotalAlloc - before.TotalAlloc
		if live {
			grown = 0
			if after.HeapAlloc > before.HeapAlloc {
				grown = after.HeapAlloc - before.HeapAlloc
			}
		}
		if after.StackSys > before.StackSys {
			grown += after.StackSys - before.StackSys
		}
		x.Log.Append(mem.Ev{"k": "x-alloc", "conn": conn.ID, "bytes": capInt(grown), "sent": len(b), "limit": L})
	}
	started := false
	start := func() {
		conn.Send(pgw.Startup(pgw.Version30, [][2]string{{"user", "u"}}, true), mem.Ev{"k": "send", "m": M{"t": "Startup"}})
		conn.WaitQuiet(WaitTimeout) //nolint
		started = true
	}
	// a script whose handler reads COPY data through the binary row reader (client-controlled bytes)
	x.scripts["q1"] = M{"id": 1, "parse": "ok", "stmts": []any{M{"id": 1, "cols": []any{M{"name": "a", "oid": 23}, M{"name": "b", "oid": 25}}, "oids": []any{},
		"prog": []any{M{"op": "copyin", "fmt": 1}, M{"op": "bincopy"}, M{"op": "complete", "tag": "COPY"}, M{"op": "ret", "r": "nil"}}}}}
	switch S(scn, "kind") {
	case "fresh": // random bytes on a fresh connection
		sendMeasured(randomBytes(rng, 1+rng.Intn(300)))
	case "session": // random bytes after a valid startup
		start()
		for i := 0; i < 1+rng.Intn(4); i++ {
			if wedged || conn.ServerClosed() {
				break
			}
			sendMeasured(randomBytes(rng, 1+rng.Intn(300)))
		}
	case "mutate": // a valid stream with random byte flips, truncation, duplicated pieces
		start()
		stream := validStream(rng)
		for i := 0; i < 1+rng.Intn(4); i++ {
			switch rng.Intn(4) {
			case 0:
				stream[rng.Intn(len(stream))] ^= byte(1 << rng.Intn(8))
			case 1:
				stream = stream[:1+rng.Intn(len(stream))]
			case 2:
				p := rng.Intn(len(stream))
				stream = append(stream[:p:p], append(randomBytes(rng, 1+rng.Intn(8)), stream[p:]...)...)
			default:
				p := rng.Intn(len(stream))
				binary.BigEndian.PutUint16(append(stream, 0, 0)[p:], uint16(rng.Intn(65536)))
			}
		}
		if len(stream) > L {
			stream = stream[:L]
		}
		sendMeasured(stream)
	case "bomb": // counts and lengths that declare far more than is sent
		start()
		var b []byte
		switch rng.Intn(5) {
		case 0: // Bind: 65535 format codes announced, body ends
			b = pgw.Typed('B', append([]byte{0, 0}, 0xff, 0xff, 0, 1))
		case 1: // Bind: 65535 parameters announced
			b = pgw.Typed('B', append([]byte{0, 0, 0, 0}, 0xff, 0xff, 0, 0, 0, 1, 'x'))
		case 2: // Bind: a parameter of 2^31 bytes announced
			b = pgw.Typed('B', append([]byte{0, 0, 0, 0}, 0, 1, 0x7f, 0xff, 0xff, 0xff, 'x'))
		case 3: // Parse: 65535 parameter types announced
			b = pgw.Typed('P', append([]byte("\x00q1\x00"), 0xff, 0xff))
		default: // a header announcing a gigabyte (or 4 GiB), ten bytes follow
			d := []uint32{1 << 30, 1 << 31, 0xFFFFFFFF, 0x80000004}[rng.Intn(4)]
			b = pgw.TypedDeclared([]byte("QBPDEdX")[rng.Intn(7)], d, randomBytes(rng, 10))
		}
		sendMeasured(b)
	case "flood": // hundreds of thousands of the messages a COPY ignores (Sync, Flush), in one go, while a handler reads COPY data
		start()
		conn.Send(pgw.Query("q1"), mem.Ev{"k": "send", "m": M{"t": "Q"}})
		conn.WaitQuiet(WaitTimeout) //nolint
		n := 100000 + rng.Intn(300000)
		b := make([]byte, 0, 5*n)
		for i := 0; i < n; i++ {
			if rng.Intn(2) == 0 {
				b = append(b, pgw.Sync()...)
			} else {
				b = append(b, pgw.Flush()...)
			}
		}
		// (a constant cost per message is no ballooning: what counts is what the server still holds when all of them
		// have been taken in)
		live = true
		sendMeasured(b)
		live = false
		if !wedged && !conn.ServerClosed() {
			conn.Send(pgw.CopyDone(), mem.Ev{"k": "send", "m": M{"t": "c"}})
			conn.Send(pgw.Sync(), mem.Ev{"k": "send", "m": M{"t": "S"}})
			if _, err := conn.WaitQuiet(WaitTimeout); err != nil {
				wedged = true
			}
		}
	case "copybin": // hostile bytes as a binary COPY stream, read through the library's row reader
		start()
		conn.Send(pgw.Query("q1"), mem.Ev{"k": "send", "m": M{"t": "Q"}})
		conn.WaitQuiet(WaitTimeout) //nolint
		var payload []byte
		switch rng.Intn(5) {
		case 4: // a complete row with more fields than the statement has columns
			payload = append(append([]byte{}, copySignature...), 0, 0, 0, 0, 0, 0, 0, 0)
			n := 3 + rng.Intn(4)
			payload = append(payload, 0, byte(n))
			for i := 0; i < n; i++ {
				payload = append(payload, 0, 0, 0, 4, 0, 0, 0, byte(i))
			}
		case 0:
			payload = randomBytes(rng, rng.Intn(200))
		case 1: // header, then a row announcing 65535 / 3 / 0 fields
			payload = append(append([]byte{}, copySignature...), 0, 0, 0, 0, 0, 0, 0, 0)
			payload = append(payload, byte(rng.Intn(256)), byte(rng.Intn(4)))
			payload = append(payload, randomBytes(rng, rng.Intn(64))...)
		case 2: // a field announcing 2^31 bytes
			payload = append(append([]byte{}, copySignature...), 0, 0, 0, 0, 0, 0, 0, 0, 0, 2, 0x7f, 0xff, 0xff, 0xff, 1, 2, 3)
		default: // a header extension announcing 4 GiB
			payload = append(append([]byte{}, copySignature...), 0, 0, 0, 0, 0xff, 0xff, 0xff, 0xfe, 9, 9)
		}
		sendMeasured(pgw.CopyData(payload))
		if !wedged && !conn.ServerClosed() {
			conn.Send(pgw.CopyDone(), mem.Ev{"k": "send", "m": M{"t": "c"}})
			conn.Send(pgw.Sync(), mem.Ev{"k": "send", "m": M{"t": "S"}})
			if _, err := conn.WaitQuiet(WaitTimeout); err != nil {
				wedged = true
			}
		}
	}
	_ = started
	if !wedged && !conn.ServerClosed() {
		conn.CloseClient()
		if conn.WaitClosed(WaitTimeout) != nil {
			wedged = true
		}
	}
	if wedged {
		x.Log.Append(mem.Ev{"k": "wedged", "conn": conn.ID})
	}
	// the probe
	probe := x.Dial()
	x.scripts["q777"] = M{"id": 777, "parse": "ok", "stmts": []any{M{"id": 777, "cols": []any{}, "oids": []any{}, "prog": []any{M{"op": "complete", "tag": "PROBE"}, M{"op": "ret", "r": "nil"}}}}}
	probe.WaitQuiet(WaitTimeout) //nolint
	probe.Send(pgw.Startup(pgw.Version30, [][2]string{{"user", "probe"}}, true), mem.Ev{"k": "send", "m": M{"t": "Startup"}})
	probe.WaitQuiet(WaitTimeout) //nolint
	probe.Send(pgw.Query("q777"), mem.Ev{"k": "send", "m": M{"t": "Q"}})
	if _, err := probe.WaitQuiet(WaitTimeout); err != nil {
		x.Log.Append(mem.Ev{"k": "wedged", "conn": probe.ID})
	}
	probe.CloseClient()
	if probe.WaitClosed(WaitTimeout) != nil {
		x.Log.Append(mem.Ev{"k": "wedged", "conn": probe.ID})
	}
	x.Shutdown()
	kinds := &Projection{Recv: map[string]fieldSet{"*": fs("t")}, Cb: map[string]fieldSet{"*": fs()}}
	for pass, c := range []*mem.Conn{conn, probe} {
		if pass == 1 {
			out = append(out, M{"k": "cfg", "probe": true})
		}
		p := &Projector{Conn: c.ID, Proj: kinds}
		for _, e := range x.Log.Events() {
			if AsInt(e["conn"]) != c.ID {
				continue
			}
			switch e["k"] {
			case "junk":
				p.Out = append(p.Out, M{"k": "junk", "n": e["n"]})
			case "x-alloc":
				p.Out = append(p.Out, M{"k": "x-alloc", "bytes": e["bytes"], "sent": e["sent"], "limit": e["limit"]})
			case "x-global", "x-intact":
			case "send":
				p.Out = append(p.Out, M{"k": "send"})
			default:
				// the server's bytes: complete frames only; what the junk provoked need not be judged here
				if e["k"] == "write" && pass == 0 {
					p.Out = append(p.Out, M{"k": "recv", "m": M{"t": "-"}})
					continue
				}
				p.Feed(e)
			}
		}
		if pass == 1 {
			p.Finish()
		}
		out = append(out, p.Out...)
	}
	return out, nil
}

func randomBytes(rng *rand.Rand, n int) []byte {
	b := make([]byte, n)
	rng.Read(b)
	if n > 0 && rng.Intn(3) == 0 { // bias the first byte towards real message types
		b[0] = []byte("QPBDECHSXdcfp")[rng.Intn(13)]
	}
	if n > 4 && rng.Intn(2) == 0 { // and the length towards plausible values
		binary.BigEndian.PutUint32(b[1:], uint32(rng.Intn(2*n)))
	}
	return b
}

func validStream(rng *rand.Rand) []byte {
	var s []byte
	s = append(s, pgw.Parse("s", "q1", []uint32{23, 25})...)
	s = append(s, pgw.Bind("p", "s", []int16{0, 1}, [][]byte{[]byte("42"), nil, {1, 2, 3}}, []int16{1})...)
	s = append(s, pgw.Describe('P', "p")...)
	s = append(s, pgw.Execute("p", 0)...)
	s = append(s, pgw.Sync()...)
	s = append(s, pgw.Query("q1")...)
	return s
}

// helperFuzz calls the documented helpers directly on hostile data: they must
// return (a value or an error); a panic kills the process and is reported.
func helperFuzz(rng *rand.Rand) []M {
	out := []M{{"k": "cfg", "probe": false}}
	ctx := context.Background()
	_ = ctx
	for i := 0; i < 50; i++ {
		q := make([]byte, rng.Intn(60))
		for j := range q {
			alphabet := []byte("$?0123456789 abc$$??\x00\xff-9")
			q[j] = alphabet[rng.Intn(len(alphabet))]
		}
		res := wire.ParseParameters(string(q))
		out = append(out, M{"k": "x-helper", "name": "ParseParameters", "returned": len(res) <= 65535})
	}
	x, err := NewExec(M{"auth": "none", "tls": "nil", "params": M{}, "version": "", "mw": []any{}, "term": "none", "limit": 8192})
	if err == nil {
		tm := x.Srv
		_ = tm
		x.Shutdown()
	}
	oids := []uint32{16, 17, 20, 21, 23, 25, 700, 701, 1043, 1082, 1114, 1184, 2950, 114, 3802, 1700, 0, 999999}
	for i := 0; i < 200; i++ {
		p := wire.NewParameter(newTypeMap(), wire.FormatCode(rng.Intn(3)-0), randomBytes(rng, rng.Intn(40)))
		func() {
			_, err := p.Scan(oids[rng.Intn(len(oids))])
			_ = err
		}()
		out = append(out, M{"k": "x-helper", "name": "Parameter.Scan", "returned": true})
	}
	out = append(out, M{"k": "end"})
	return out
}

// capInt keeps a measured quantity within what TLC's 32-bit integers hold
// (a larger value would wrap around and pass every bound).
func capInt(v uint64) int {
	if v > 2000000000 {
		return 2000000000
	}
	return int(v)
}
