package run

import (
	"bufio"
	"encoding/binary"
	"encoding/hex"
	"encoding/json"
	"fmt"
	"os"
	"path/filepath"
	"sort"
	"strings"

	"verif/harness/pgw"
)

// Decoding of raw connection recordings (the library's verifConn recorder,
// build tag verif, PSQLWIRE_VERIF_TRACE) into the abstract events of
// PgFlow.tla: the conversation of a connection whose callbacks are unknown
// (the repository's own tests, arbitrary clients).
//
// A frontend message is "sent" at the Read that delivered its last byte; a
// backend message is "received" at the Write that carried its last byte.

type flowConn struct {
	in, out  []byte // undecoded remainders
	started  bool   // the start-up packet has been seen
	opaque   bool   // TLS was accepted: the rest is ciphertext
	sslAsked bool   // an SSL/GSS request is waiting for its one-byte answer
	events   []M
}

func (f *flowConn) ev(m M) { f.events = append(f.events, m) }

func cstrAt(b []byte, off int) (string, int, bool) {
	for i := off; i < len(b); i++ {
		if b[i] == 0 {
			return string(b[off:i]), i + 1, true
		}
	}
	return "", off, false
}

// frontend decodes one complete typed frontend message into its abstract form.
func frontend(t byte, body []byte) M {
	m := M{"t": string([]byte{t})}
	bad := func() M { return M{"t": "Bad", "ty": string([]byte{t})} }
	switch t {
	case 'Q':
		s, _, ok := cstrAt(body, 0)
		if !ok {
			return bad()
		}
		m["blank"] = strings.TrimSpace(s) == ""
	case 'P':
		name, o, ok := cstrAt(body, 0)
		if !ok {
			return bad()
		}
		_, o, ok = cstrAt(body, o)
		if !ok || len(body)-o < 2 {
			return bad()
		}
		m["name"] = name
	case 'B':
		portal, o, ok := cstrAt(body, 0)
		if !ok {
			return bad()
		}
		stmt, _, ok := cstrAt(body, o)
		if !ok {
			return bad()
		}
		m["portal"], m["stmt"] = portal, stmt
	case 'D', 'C':
		if len(body) < 2 {
			return bad()
		}
		name, _, ok := cstrAt(body, 1)
		if !ok {
			return bad()
		}
		k := string(body[:1])
		if k != "S" && k != "P" {
			k = "other"
		}
		m["kind"], m["name"] = k, name
	case 'E':
		portal, o, ok := cstrAt(body, 0)
		if !ok || len(body)-o < 4 {
			return bad()
		}
		m["portal"] = portal
	case 'S', 'H', 'X', 'c':
		if len(body) > 0 {
			m["fat"] = true // a body where none belongs: possibly over the size limit
		}
	case 'd', 'f', 'p':
	default:
		return M{"t": "U"}
	}
	return m
}

func (f *flowConn) feedIn(b []byte) {
	f.in = append(f.in, b...)
	for !f.opaque {
		if !f.started || f.sslAsked {
			if f.sslAsked {
				return // the client waits for the answer before it sends more
			}
			if len(f.in) < 8 {
				return
			}
			l := int(binary.BigEndian.Uint32(f.in[:4]))
			if l < 8 || len(f.in) < l {
				if l < 8 || l > 1<<20 {
					f.ev(M{"k": "send", "m": M{"t": "Startup", "proto": "bad"}})
					f.opaque = true
				}
				return
			}
			v := binary.BigEndian.Uint32(f.in[4:8])
			proto := "other"
			switch v {
			case pgw.Version30:
				proto = "3.0"
				f.started = true
			case pgw.VersionSSL:
				proto = "ssl"
				f.sslAsked = true
			case 80877102:
				proto = "cancel"
			case 80877104:
				proto = "gss"
				f.sslAsked = true
			}
			f.ev(M{"k": "send", "m": M{"t": "Startup", "proto": proto}})
			f.in = f.in[l:]
			continue
		}
		if len(f.in) < 5 {
			return
		}
		l := int(binary.BigEndian.Uint32(f.in[1:5]))
		if l < 4 {
			f.ev(M{"k": "send", "m": M{"t": "Tiny"}})
			f.opaque = true // framing is lost from here on
			return
		}
		if len(f.in) < 1+l {
			return
		}
		f.ev(M{"k": "send", "m": frontend(f.in[0], f.in[5:1+l])})
		f.in = f.in[1+l:]
	}
}

func (f *flowConn) feedOut(b []byte) {
	if f.opaque {
		return
	}
	f.out = append(f.out, b...)
	if f.sslAsked && len(f.out) >= 1 {
		c := f.out[0]
		f.out = f.out[1:]
		f.sslAsked = false
		switch c {
		case 'N':
			f.ev(M{"k": "recv", "m": M{"t": "sslN"}})
		case 'S':
			f.ev(M{"k": "recv", "m": M{"t": "sslS"}})
			f.opaque = true
			return
		default:
			f.ev(M{"k": "recv", "m": M{"t": "sslBad"}})
		}
	}
	msgs, rest, bad := pgw.Frame(f.out)
	for _, mm := range msgs {
		d := pgw.Decode(mm)
		e := M{"t": d["t"]}
		switch mm.Type {
		case 'E':
			e["fatal"] = fatalSev(S(d, "sev"))
			e["code"] = S(d, "code")
		case 'T', 'D':
			e["n"] = d["n"]
		case 'G':
			e["n"] = d["n"]
		case 'R':
			e["code"] = d["code"]
		case 'Z':
			e["st"] = d["st"]
		}
		f.ev(M{"k": "recv", "m": e})
	}
	f.out = append([]byte{}, rest...)
	if bad {
		f.ev(M{"k": "recv", "m": M{"t": "garbage"}})
		f.opaque = true
	}
}

// DecodeFlowDir turns every recording in dir into one concatenated trace. The
// size limit of the servers is not known to the decoder: whether a message was
// over the limit shows in the answer (PgFlow allows the 54000 answer to any message).
func DecodeFlowDir(dir string) ([]M, int, error) {
	files, err := filepath.Glob(filepath.Join(dir, "conn-*.ndjson"))
	if err != nil {
		return nil, 0, err
	}
	sort.Strings(files)
	var out []M
	for _, fn := range files {
		fh, err := os.Open(fn)
		if err != nil {
			return nil, 0, err
		}
		f := &flowConn{}
		sc := bufio.NewScanner(fh)
		sc.Buffer(make([]byte, 1<<20), 1<<28)
		for sc.Scan() {
			var rec struct {
				D   string `json:"d"`
				Hex string `json:"hex"`
				Err string `json:"err"`
			}
			if json.Unmarshal(sc.Bytes(), &rec) != nil {
				continue
			}
			if (rec.D == "close" || (rec.Err != "" && rec.D == "r")) && len(f.in) > 0 && !f.opaque {
				// the conversation ends inside a frontend message: what arrived of it was seen by the server
				f.ev(M{"k": "send", "m": M{"t": "Partial"}})
				f.in = nil
			}
			switch {
			case rec.D == "close":
				f.ev(M{"k": "close"})
			case rec.D == "refused":
				// the server is closing: the message it had just read is not admitted and gets no reply
				f.ev(M{"k": "refused"})
			case rec.Err != "" && rec.D == "r":
				f.ev(M{"k": "eof"})
			case rec.Err != "":
				f.ev(M{"k": "fault"})
			default:
				b, _ := hex.DecodeString(rec.Hex)
				if rec.D == "r" {
					f.feedIn(b)
				} else {
					f.feedOut(b)
				}
			}
		}
		fh.Close()
		if len(f.out) > 0 && !f.opaque {
			f.ev(M{"k": "recv", "m": M{"t": "partial"}}) // the server stopped inside a message
		}
		out = append(out, M{"k": "conn", "file": filepath.Base(fn)})
		out = append(out, f.events...)
	}
	return out, len(files), nil
}

// WriteFlowTrace writes the trace and its index (first line, last line, connection number).
func WriteFlowTrace(events []M, path string) error {
	fh, err := os.Create(path)
	if err != nil {
		return err
	}
	defer fh.Close()
	idx, err := os.Create(path + ".idx")
	if err != nil {
		return err
	}
	defer idx.Close()
	w := bufio.NewWriter(fh)
	first, n := 0, -1
	for i, e := range events {
		if e["k"] == "conn" {
			if n >= 0 {
				fmt.Fprintf(idx, "%d %d %d\n", first, i, n)
			}
			n++
			first = i + 1
		}
		b, _ := json.Marshal(e)
		w.Write(b)
		w.WriteByte('\n')
	}
	if n >= 0 {
		fmt.Fprintf(idx, "%d %d %d\n", first, len(events), n)
	}
	return w.Flush()
}
