// Package mem is an in-memory transport for driving the real psql-wire server
// without TCP. Every event of a connection (bytes offered by the client, bytes
// read by the server, the server blocking on empty input, bytes written by the
// server, close, injected faults, callback events appended by the harness) is
// appended to ONE log under ONE mutex, so the log is a total order without any
// wall-clock merging. The server's Read finding the queue empty is the
// hook-free linearisation point "the server has reacted to everything sent".
package mem

import (
	"errors"
	"fmt"
	"io"
	"net"
	"os"
	"sync"
	"time"
)

// Ev is one recorded event. Key "k" names the kind.
type Ev map[string]any

// Log is the totally ordered event log shared by every connection of one
// execution. All appends happen under mu.
type Log struct {
	mu   sync.Mutex
	cond *sync.Cond
	evs  []Ev
	seq  int
}

func NewLog() *Log {
	l := &Log{}
	l.cond = sync.NewCond(&l.mu)
	return l
}

// Append adds an event (callable from callbacks running on server goroutines).
func (l *Log) Append(e Ev) {
	l.mu.Lock()
	l.appendLocked(e)
	l.mu.Unlock()
}

func (l *Log) appendLocked(e Ev) {
	l.seq++
	e["seq"] = l.seq
	l.evs = append(l.evs, e)
	l.cond.Broadcast()
}

// Events returns a snapshot of the log.
func (l *Log) Events() []Ev {
	l.mu.Lock()
	defer l.mu.Unlock()
	out := make([]Ev, len(l.evs))
	copy(out, l.evs)
	return out
}

// Addr identifies an in-memory connection.
type Addr struct {
	ID  int
	Net string // what Network() says ("mem" when empty): the server may be listening on a Unix socket as well as on TCP
}

func (a Addr) Network() string {
	if a.Net != "" {
		return a.Net
	}
	return "mem"
}
func (a Addr) String() string { return fmt.Sprintf("mem:%d", a.ID) }

var ErrInjected = errors.New("mem: injected transport failure")

// Conn is the server-side end handed to wire.Server. The client side is driven
// with Send / CloseClient / fault setters.
type Conn struct {
	ID  int
	Net string // network name reported by the addresses of this connection
	log *Log

	inq          [][]byte // pending client segments
	clientClosed bool     // client sent EOF
	serverClosed bool
	idle         bool // server is blocked in Read on an empty queue
	out          []byte
	outRead      int   // bytes of out already handed to a client-side Read (TLS adapter)
	outMarks     []int // end offset in out of every server Write

	reads, writes     int
	failReadsAfter    int // -1 = never; k = the (k+1)-th Read call and all later calls fail
	failWritesAfter   int
	failAfterBytes    int // -1 = never; total bytes delivered to the server before reads fail
	delivered         int
	faultLogged       bool
	QuietReads        bool // do not log individual read events
	MaxReadChunk      int  // if >0, deliver at most this many bytes per Read (segmentation inside a segment)
	blockWritesOnGate chan struct{}
	failed            bool
	clientWriting     bool // the client is delivering one logical write in several segments (TLS records)
	idleHeld          bool

	// deadlines set by the server are honoured against a clock the harness can move forward (Elapse)
	rdl, wdl time.Time
	skew     time.Duration
}

// timeoutErr is what Read and Write return past their deadline (a net.Error with Timeout() true)
type timeoutErr struct{}

func (timeoutErr) Error() string   { return "mem: i/o timeout" }
func (timeoutErr) Timeout() bool   { return true }
func (timeoutErr) Temporary() bool { return true }
func (timeoutErr) Is(target error) bool {
	return target == os.ErrDeadlineExceeded
}

func (c *Conn) past(dl time.Time) bool { return !dl.IsZero() && time.Now().Add(c.skew).After(dl) }

// Elapse lets time pass for this connection: every deadline armed on it is that much closer (or gone by).
func (c *Conn) Elapse(d time.Duration) {
	l := c.log
	l.mu.Lock()
	c.skew += d
	l.cond.Broadcast()
	l.mu.Unlock()
}

func (c *Conn) setDeadline(r, w bool, t time.Time) error {
	l := c.log
	l.mu.Lock()
	if r {
		c.rdl = t
	}
	if w {
		c.wdl = t
	}
	l.cond.Broadcast()
	l.mu.Unlock()
	if !t.IsZero() {
		if d := time.Until(t); d > 0 && d < time.Minute {
			time.AfterFunc(d+time.Millisecond, func() { l.mu.Lock(); l.cond.Broadcast(); l.mu.Unlock() })
		}
	}
	return nil
}

func NewConn(id int, log *Log) *Conn {
	return &Conn{ID: id, log: log, failReadsAfter: -1, failWritesAfter: -1, failAfterBytes: -1}
}

// ---- server side (net.Conn) ----

func (c *Conn) Read(p []byte) (int, error) {
	l := c.log
	l.mu.Lock()
	defer l.mu.Unlock()
	for {
		if c.serverClosed {
			return 0, net.ErrClosed
		}
		if c.past(c.rdl) {
			return 0, timeoutErr{}
		}
		if c.failed || (c.failReadsAfter >= 0 && c.reads >= c.failReadsAfter) || (c.failAfterBytes >= 0 && c.delivered >= c.failAfterBytes) {
			c.failed = true // once the transport has failed it fails in both directions
			c.reads++
			if !c.faultLogged {
				c.faultLogged = true
				l.appendLocked(Ev{"k": "fault", "conn": c.ID, "on": "read"})
			}
			return 0, ErrInjected
		}
		if len(c.inq) > 0 {
			seg := c.inq[0]
			n := len(seg)
			if n > len(p) {
				n = len(p)
			}
			if c.MaxReadChunk > 0 && n > c.MaxReadChunk {
				n = c.MaxReadChunk
			}
			if c.failAfterBytes >= 0 && c.delivered+n > c.failAfterBytes {
				n = c.failAfterBytes - c.delivered
			}
			copy(p, seg[:n])
			if n == len(seg) {
				c.inq = c.inq[1:]
			} else {
				c.inq[0] = seg[n:]
			}
			c.reads++
			c.delivered += n
			c.idle = false
			if !c.QuietReads {
				l.appendLocked(Ev{"k": "read", "conn": c.ID, "n": n})
			}
			return n, nil
		}
		if c.clientClosed {
			c.reads++
			return 0, io.EOF
		}
		if !c.idle {
			c.idle = true
			if c.clientWriting {
				c.idleHeld = true // in the middle of a multi-segment client write: not a quiescent point
			} else {
				l.appendLocked(Ev{"k": "idle", "conn": c.ID})
			}
		}
		l.cond.Wait()
	}
}

func (c *Conn) Write(p []byte) (int, error) {
	l := c.log
	l.mu.Lock()
	defer l.mu.Unlock()
	if c.serverClosed {
		return 0, net.ErrClosed
	}
	if c.past(c.wdl) {
		return 0, timeoutErr{}
	}
	if c.failed || (c.failWritesAfter >= 0 && c.writes >= c.failWritesAfter) {
		c.failed = true
		c.writes++
		if !c.faultLogged {
			c.faultLogged = true
			l.appendLocked(Ev{"k": "fault", "conn": c.ID, "on": "write"})
		}
		return 0, ErrInjected
	}
	c.writes++
	b := make([]byte, len(p))
	copy(b, p)
	c.out = append(c.out, b...)
	c.outMarks = append(c.outMarks, len(c.out))
	l.appendLocked(Ev{"k": "write", "conn": c.ID, "b": b, "wi": len(c.outMarks) - 1})
	return len(p), nil
}

func (c *Conn) Close() error {
	l := c.log
	l.mu.Lock()
	defer l.mu.Unlock()
	if c.serverClosed {
		return nil
	}
	c.serverClosed = true
	l.appendLocked(Ev{"k": "close", "conn": c.ID})
	return nil
}

func (c *Conn) LocalAddr() net.Addr                { return Addr{0, c.Net} }
func (c *Conn) RemoteAddr() net.Addr               { return Addr{c.ID, c.Net} }
func (c *Conn) SetDeadline(t time.Time) error      { return c.setDeadline(true, true, t) }
func (c *Conn) SetReadDeadline(t time.Time) error  { return c.setDeadline(true, false, t) }
func (c *Conn) SetWriteDeadline(t time.Time) error { return c.setDeadline(false, true, t) }

// ---- client side ----

// Send offers one segment to the server. The given events are appended to the
// log before the bytes become visible, under the same lock.
func (c *Conn) Send(b []byte, evs ...Ev) {
	l := c.log
	l.mu.Lock()
	for _, e := range evs {
		e["conn"] = c.ID
		l.appendLocked(e)
	}
	if len(b) > 0 {
		seg := make([]byte, len(b))
		copy(seg, b)
		c.inq = append(c.inq, seg)
		c.idle = false
	}
	l.cond.Broadcast()
	l.mu.Unlock()
}

// BeginClientWrite / EndClientWrite bracket a client write that reaches the
// server in several segments: the server blocking between two of them is not
// logged as idle; if it is still blocked when the write is complete, it is.
func (c *Conn) BeginClientWrite() {
	c.log.mu.Lock()
	c.clientWriting = true
	c.idleHeld = false
	c.log.mu.Unlock()
}

func (c *Conn) EndClientWrite() {
	l := c.log
	l.mu.Lock()
	c.clientWriting = false
	if c.idleHeld && c.idle && len(c.inq) == 0 && !c.serverClosed {
		l.appendLocked(Ev{"k": "idle", "conn": c.ID})
	}
	c.idleHeld = false
	l.mu.Unlock()
}

// CloseClient makes the server see EOF after the pending segments.
func (c *Conn) CloseClient() {
	l := c.log
	l.mu.Lock()
	if !c.clientClosed {
		c.clientClosed = true
		l.appendLocked(Ev{"k": "eof", "conn": c.ID})
	}
	l.cond.Broadcast()
	l.mu.Unlock()
}

// FailReadsAfter makes the (k+1)-th and all later Read calls fail (k counted
// from now).
func (c *Conn) FailReadsAfter(k int) {
	c.log.mu.Lock()
	c.failReadsAfter = c.reads + k
	c.log.cond.Broadcast()
	c.log.mu.Unlock()
}

func (c *Conn) FailWritesAfter(k int) {
	c.log.mu.Lock()
	c.failWritesAfter = c.writes + k
	c.log.mu.Unlock()
}

// FailAfterBytes makes reads fail once n more bytes have been delivered.
func (c *Conn) FailAfterBytes(n int) {
	c.log.mu.Lock()
	c.failAfterBytes = c.delivered + n
	c.log.cond.Broadcast()
	c.log.mu.Unlock()
}

// ErrTimeout is returned by the wait functions when the server does not get
// to the awaited point (used only to detect hangs).
var ErrTimeout = errors.New("mem: timeout")

// WaitQuiet blocks until the server has consumed everything sent and is
// blocked in Read (idle), or has closed the connection. It returns "idle",
// "closed".
func (c *Conn) WaitQuiet(timeout time.Duration) (string, error) {
	l := c.log
	deadline := time.Now().Add(timeout)
	stop := make(chan struct{})
	defer close(stop)
	go func() {
		t := time.NewTimer(timeout)
		defer t.Stop()
		select {
		case <-t.C:
			l.mu.Lock()
			l.cond.Broadcast()
			l.mu.Unlock()
		case <-stop:
		}
	}()
	l.mu.Lock()
	defer l.mu.Unlock()
	for {
		if c.serverClosed {
			return "closed", nil
		}
		if c.idle && len(c.inq) == 0 {
			return "idle", nil
		}
		if time.Now().After(deadline) {
			return "", ErrTimeout
		}
		l.cond.Wait()
	}
}

// WaitClosed blocks until the server closed the connection.
func (c *Conn) WaitClosed(timeout time.Duration) error {
	l := c.log
	deadline := time.Now().Add(timeout)
	stop := make(chan struct{})
	defer close(stop)
	go func() {
		t := time.NewTimer(timeout)
		defer t.Stop()
		select {
		case <-t.C:
			l.mu.Lock()
			l.cond.Broadcast()
			l.mu.Unlock()
		case <-stop:
		}
	}()
	l.mu.Lock()
	defer l.mu.Unlock()
	for !c.serverClosed {
		if time.Now().After(deadline) {
			return ErrTimeout
		}
		l.cond.Wait()
	}
	return nil
}

// Output returns everything the server has written so far.
func (c *Conn) Output() []byte {
	c.log.mu.Lock()
	defer c.log.mu.Unlock()
	b := make([]byte, len(c.out))
	copy(b, c.out)
	return b
}

// IsIdle reports whether the server is blocked reading with nothing queued.
func (c *Conn) IsIdle() bool {
	c.log.mu.Lock()
	defer c.log.mu.Unlock()
	return c.idle && len(c.inq) == 0 && !c.serverClosed
}

func (c *Conn) ServerClosed() bool {
	c.log.mu.Lock()
	defer c.log.mu.Unlock()
	return c.serverClosed
}

// WriteIndexAt returns the index of the server Write that carried the byte
// just before raw offset off.
func (c *Conn) WriteIndexAt(off int) int {
	c.log.mu.Lock()
	defer c.log.mu.Unlock()
	for i, m := range c.outMarks {
		if off <= m {
			return i
		}
	}
	return len(c.outMarks) - 1
}

// RawConsumed is the number of raw bytes handed to the client side so far.
func (c *Conn) RawConsumed() int {
	c.log.mu.Lock()
	defer c.log.mu.Unlock()
	return c.outRead
}

// PendingRaw is the number of raw bytes the server wrote that the client side has not consumed.
func (c *Conn) PendingRaw() int {
	c.log.mu.Lock()
	defer c.log.mu.Unlock()
	return len(c.out) - c.outRead
}

// SkipRaw marks raw bytes (the plaintext 'S'/'N' reply) as consumed by the client.
func (c *Conn) SkipRaw(n int) {
	c.log.mu.Lock()
	c.outRead += n
	c.log.mu.Unlock()
}

// ClientEnd adapts the client side to a net.Conn (used by crypto/tls clients).
type ClientEnd struct{ C *Conn }

func (e ClientEnd) Read(p []byte) (int, error) {
	c := e.C
	l := c.log
	l.mu.Lock()
	defer l.mu.Unlock()
	for {
		if c.outRead < len(c.out) {
			// never hand out bytes of two server Writes at once: what the client has decrypted
			// can then be attributed to the Write that carried it
			end := len(c.out)
			for _, m := range c.outMarks {
				if m > c.outRead {
					end = m
					break
				}
			}
			n := copy(p, c.out[c.outRead:end])
			c.outRead += n
			return n, nil
		}
		if c.serverClosed {
			return 0, io.EOF
		}
		l.cond.Wait()
	}
}

func (e ClientEnd) Write(p []byte) (int, error) {
	if e.C.ServerClosed() {
		return 0, net.ErrClosed
	}
	e.C.Send(p, Ev{"k": "wire-in", "n": len(p)})
	return len(p), nil
}
func (e ClientEnd) Close() error                       { e.C.CloseClient(); return nil }
func (e ClientEnd) LocalAddr() net.Addr                { return Addr{ID: e.C.ID} }
func (e ClientEnd) RemoteAddr() net.Addr               { return Addr{} }
func (e ClientEnd) SetDeadline(t time.Time) error      { return nil }
func (e ClientEnd) SetReadDeadline(t time.Time) error  { return nil }
func (e ClientEnd) SetWriteDeadline(t time.Time) error { return nil }

// Listener hands in-memory connections to Server.Serve.
type Listener struct {
	mu     sync.Mutex
	ch     chan net.Conn
	closed chan struct{}
	once   sync.Once
	log    *Log
}

func NewListener(log *Log) *Listener {
	return &Listener{ch: make(chan net.Conn, 64), closed: make(chan struct{}), log: log}
}

// SetLog makes the listener log its closing.
func (l *Listener) SetLog(log *Log) { l.log = log }

func (l *Listener) Accept() (net.Conn, error) {
	select {
	case <-l.closed:
		return nil, net.ErrClosed
	default:
	}
	select {
	case c := <-l.ch:
		return c, nil
	case <-l.closed:
		return nil, net.ErrClosed
	}
}

func (l *Listener) Close() error {
	l.once.Do(func() {
		// log first: nobody can observe the closed listener before the event is in the log
		if l.log != nil {
			l.log.Append(Ev{"k": "listener-closed"})
		}
		close(l.closed)
	})
	return nil
}
func (l *Listener) Addr() net.Addr { return Addr{} }

// Dial offers a connection to the accept loop.
func (l *Listener) Dial(c net.Conn) error {
	select {
	case <-l.closed:
		return net.ErrClosed
	case l.ch <- c:
		return nil
	}
}
