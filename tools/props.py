"""Per-property check procedures (see DESIGN.md section 4)."""
import json, os
from check import (subsample, build_harness, model_check, gen_random, play, validate, judge, finish, sample_behaviours,
                   count_distinct, log, Machinery, read_lines, validate_single, harness, flow_step, flow_record, pgserver_inductive,
                   flow_attribution)

TB_CONN = ["TLC 1.8.0 (model checking and trace validation)",
           "harness: in-memory transport (event order under one mutex), strict PostgreSQL v3 decoder, "
           "scripted callbacks, projection to the abstract alphabet",
           "Go runtime / compiler"]

ASSUME_CONN = ["handler-supplied strings contain no NUL byte",
               "verdicts only from executions of the real code rebuilt from /repo's working tree (tags verif)"]


def conn_family(cx, model, gen_prop, n_quick, n_thorough, consts_thorough=None, rule="", extra_models=(),
                trace_module="Trace_PgConn", trace_cfg=None, mc_workers=1, known_match=None, gen_extra=None,
                play_extra=None, negative=(), proj=None, max_replay_quick=6000, max_replay_thorough=60000,
                finish_now=True, flow=False, tlc_passes=1):
    """Generic procedure for properties decided on the single-connection machine."""
    build_harness(cx)
    thorough = cx.tier == "thorough"
    consts = consts_thorough if thorough else None
    base_extra = list(play_extra or [])
    default_proj = proj if proj is not None else cx.pid
    files = []
    b1 = model_check(cx, model, consts=consts, workers=mc_workers) if model else None
    if b1:
        files.append(("tlc", b1, default_proj))
    for em in extra_models:
        m, cfg, c_q, c_t = em[:4]
        b = model_check(cx, m, cfg=cfg, consts=(c_t if thorough else c_q))
        if b:
            files.append(("tlc-" + cfg.replace(".cfg", ""), b, em[4] if len(em) > 4 else default_proj))
    if thorough:
        for (m, cfg, expect) in negative:
            model_check(cx, m, cfg=cfg, expect_violation=expect, export=False)
    if gen_prop:
        b2 = gen_random(cx, gen_prop, n_thorough if thorough else n_quick, extra=gen_extra)
        files.append(("rand", b2, default_proj))
    for tag, b, pj in files:
        if os.environ.get("VERIF_ONLY_FLOW"):
            break   # diagnostic: judge only the recorded conversations (PgFlow)
        play_extra = base_extra + ["-proj", pj]
        if tag.startswith("tlc"):
            subsample(cx, b, max_replay_thorough if thorough else max_replay_quick)
        sample_behaviours(cx, b)
        # behaviours whose concrete values are drawn at replay time (symbolic limits, payloads) may be replayed
        # several times with different draws
        for k in range(tlc_passes if tag.startswith("tlc") else 1):
            pe = play_extra + (["-seedindex", str(k * 100003)] if k else [])
            trace, crash = play(cx, b, tag if k == 0 else "%s-pass%d" % (tag, k), extra=pe)
            rejected = [] if crash else validate(cx, trace, trace_module, trace_cfg)
            judge(cx, b, trace, rejected, crash, trace_module, trace_cfg=trace_cfg, known_match=known_match,
                  play_extra=play_extra, seed_base=k * 100003)
    if flow and not cx.violations:
        flow_step(cx, b2 if gen_prop else None)
        rule += (" In addition the raw conversations of the repository's own test suite (pgx, lib/pq, raw sockets) and of "
                 "the random sessions, recorded by the connection recorder hook, are judged by the handler-agnostic "
                 "specification PgFlow (Trace_PgFlow); only rejections attributed to this property are reported here.")
    count_distinct(cx, *[f[1] for f in files])
    cx.cov["trusted_base"] = TB_CONN
    if not finish_now:
        return rule
    return finish(cx, "model_checking", rule, ASSUME_CONN)


def c05(cx):
    return conn_family(
        cx, "MC_C05", "C05", 300, 15000, flow=True,
        consts_thorough={"MaxOps": 5, "MaxOpsMulti": 2},
        rule="TLC enumerates every simple Query script of the bounded model (parser outcome blank/error/0..3 "
             "statements x every result-writer program up to MaxOps operations + return) and exports one behaviour "
             "per explored client step; a seeded generator adds longer random sessions (up to 5 queries x 3 "
             "statements x 6 operations, random values). Each behaviour is executed on the real server and its "
             "recording validated by TLC against Trace_PgConn (reply kinds, order, counts, DataWriter return classes, "
             "Written()). distinct_nontrivial = distinct behaviours.")


def c06(cx):
    return conn_family(
        cx, "MC_C06", "C06", 500, 30000, flow=True,
        consts_thorough={"Rich": "TRUE", "MaxSends": 8},   # 1.2 M states, 82 s single worker (measured); 9: 2.3 M, 157 s
        rule="TLC explores every history of extended-protocol messages over names {'',a} x portals {'',p} (known/"
             "unknown, parser and handler success/failure, interleaved simple queries; thorough adds Close, NoData "
             "statements, multi/zero-statement parses, oversized/unknown/stray-COPY messages, Terminate) and exports "
             "one behaviour per transition of the quotient graph (transition cover); a seeded generator adds random "
             "histories of up to 30 messages over 4 names with pipelining. Every behaviour is executed on the real "
             "server; TLC validates the recordings (reply kinds per message, ReadyForQuery only for Sync, one "
             "ErrorResponse then silence until Sync, no callback while discarding, idle only when nothing is owed).")


def c07(cx):
    return conn_family(
        cx, "MC_C07", "C07", 500, 30000,
        consts_thorough={"MaxVer": 3},
        extra_models=[("MC_C07", "MC_C07_cache.cfg", None, {"MaxSends": 11})],
        rule="With user-supplied statement and portal caches (options Statements / Portals, second model configuration "
             "and part of the random sessions) every call the library makes on them - Set, Get with its outcome, Bind, "
             "Execute, Close, with the name - is part of the recording and must be the call the specification "
             "prescribes for the message. TLC explores every history of Parse/Bind/Describe/Execute/Close over statement names {'',a} and portal "
             "names {'',p} (each followed by Sync), every Parse creating a fresh definition id that is visible in the "
             "statement callback and the RowDescription; transition cover exported, replayed on the real server "
             "(quick: seeded sample), validated by TLC: the Execute callback must name the definition and parameters "
             "of the portal's own Bind. Random histories over 4 names, 30 messages, added.")


def c08(cx):
    return conn_family(
        cx, "MC_C08", "C08", 300, 15000,
        consts_thorough={"MaxParams": 3},
        rule="TLC enumerates every Bind of the bounded model: 0..MaxParams parameters x {NULL, empty, ordinary, "
             "NUL-containing} x every admissible parameter-format list (none/one/positional) x every admissible "
             "result-format list for two columns (int4,text), for a statement without and with declared parameter "
             "types; each conversation (Parse, Describe S, Bind, Describe P, Execute, Sync) is run on the real server "
             "with real typed values substituted; TLC validates: parameters seen by the statement function (count, "
             "order, byte digest, NULL, format tag, Scan result), ParameterDescription, RowDescription formats and the "
             "encoding actually found in each DataRow field. Random driver: up to 300 parameters, 8 types, values to "
             "10 KiB, random result columns.")


def c17(cx):
    return conn_family(
        cx, "MC_C17", "C17", 500, 30000,
        consts_thorough={"MaxLayers": 4},
        rule="TLC enumerates every decorator stack up to MaxLayers layers over 12 layer values (2 codes, 2 severities, "
             "2 hints, detail, constraint, 2 wraps, 2 sources), returned by a statement function and by the parser, and "
             "checks the flattening rules (outermost wins, defaults) on the operators; each error is built with the real "
             "errors package and sent through the real server; TLC validates every ErrorResponse field for field "
             "(severity, SQLSTATE, message text, hint, detail, file/line/function, constraint, no duplicates, "
             "well-formed). Random driver: stacks to depth 10 with repetitions, random NUL-free unicode texts, the three "
             "error paths (simple, parser, extended) and direct ErrorCode calls including nil.")


def c13(cx):
    return conn_family(
        cx, "MC_C13", "C13", 500, 30000, flow=True,
        consts_thorough={"MaxCopy": 7},
        rule="TLC explores every sequence of up to MaxCopy client messages over {CopyData x2 payloads, CopyDone, CopyFail, "
             "Flush, Sync, simple Query, unknown message} following a CopyInResponse, for handlers that read to the end "
             "(propagating a failed read), stop after one chunk and complete, or stop and fail, over 1-2 columns and both "
             "formats (and COPY on a column-less statement); transition cover executed on the real server; TLC validates "
             "CopyInResponse contents, every Read result class and chunk digest in order, exactly one ErrorResponse and "
             "ReadyForQuery for an aborted cycle, silence for stray COPY messages. Random driver: payloads to 20 KiB, "
             "pipelining, extended-protocol COPY, several rounds per connection.")


def c01(cx):
    return conn_family(
        cx, "MC_C01", "C01", 1000, 60000, flow=True,
        consts_thorough={"MaxAfter": 5},
        rule="TLC explores the clear-text authentication of the bounded model: every validator outcome (accept/reject/"
             "fail), every message in place of the password (Query, Parse, Sync, Terminate, unknown, unterminated / "
             "oversized / undersized password message, end of input), with and without a refused SSLRequest before, and "
             "every continuation of up to MaxAfter messages pushed with or without waiting; it checks that the "
             "authenticated phases and everything they emit are reachable only after an accepting validator call. The "
             "transition cover runs on the real server (ClearTextPassword with a scripted validator); TLC validates reply "
             "kinds, AuthenticationOk/ErrorResponse class 28, validator arguments, and that no middleware, parser or "
             "statement callback ever follows a non-accepting exchange. Random driver: random user/database/password "
             "strings, message kinds and pipelining.")


def c12(cx):
    rule = conn_family(
        cx, "MC_C12", "C12", 1000, 60000, flow=True,
        consts_thorough={"MaxKvs": 4},
        rule="TLC explores startup negotiation on the bounded model: every startup packet of up to MaxKvs pairs over 3 "
             "keys x {value, empty} (duplicates, missing terminator), 4 configured parameter maps (empty, plain, colliding "
             "with the built-in keys), version set/unset, auth on/off, refused SSL before, CancelRequest at each stage - "
             "also inside an accepted TLS session - then one query; it checks the ParameterStatus block (one message per "
             "key, built-ins override) and that the configuration never changes. The transition cover runs on the real "
             "server; TLC validates the auth exchange, the ParameterStatus set (each key once, any order), one "
             "ReadyForQuery(idle), the client/server parameters seen by middleware, parser and statement callbacks, and "
             "that the user's global map is unchanged after the run. Random driver: random keys, long values, random maps. "
             "Concurrent users: interleavings of 2 sessions of different users on one server (scheduler model MC_C15), "
             "every connection validated alone - what its callbacks see as server parameters must be its own.",
        finish_now=False)
    # per-connection values never leak between concurrent connections
    b = model_check(cx, "MC_C15")
    subsample(cx, b, 2000 if cx.tier == "thorough" else 120)
    trace, crash = play(cx, b, "multi", cmd="multi", extra=["-proj", "C12"])
    rejected = [] if crash else validate(cx, trace, "Trace_PgConn")
    judge(cx, b, trace, rejected, crash, "Trace_PgConn", play_cmd="multi", play_extra=["-proj", "C12"])
    return finish(cx, "model_checking", rule, ASSUME_CONN)


def c19(cx):
    return conn_family(
        cx, "MC_C19", "C19", 1000, 60000, flow=True,
        consts_thorough={"MaxMw": 4, "MaxCmds": 5},
        rule="TLC explores the session lifecycle on the bounded model: every list of up to MaxMw middlewares each "
             "succeeding or failing, auth on/off, terminate hook registered or not, every command history up to MaxCmds "
             "commands over simple Query (1-2 statements), Parse/Bind/Execute/Sync and Terminate; it checks middleware "
             "order, that a failing middleware prevents the session, that callbacks see the full context, and that "
             "Terminate runs the hook once and closes. The transition cover runs on the real server where middlewares "
             "stack markers into the context and every callback reports the marker chain, client/server parameters, "
             "remote address, type map, liveness of its own command context and cancellation of the previous one; TLC "
             "validates all of it. Random driver: up to 6 middlewares, 10 commands.")


def c10(cx):
    limits = "16,17,64,4095,4096,4097,8192,65536" + (",0,-1" if cx.tier == "thorough" else "")
    rule = conn_family(
        cx, "MC_C10", "C10", 600, 30000, flow=True, tlc_passes=4, finish_now=False,
        consts_thorough={"MaxSends": 6},
        extra_models=[("MC_C10", "MC_C10pre.cfg", None, None, "C10pre")],
        play_extra=["-limits", limits],
        rule="TLC explores, for a symbolic limit L, sessions of up to MaxSends messages over: Query with body exactly L, "
             "L-1, small; messages of all 14 types declaring L+1, 2L, 2L+1, 3L+7; declared lengths 0..3; headers declaring "
             "2^31, 2^32-5, 2^32-1 followed by ten bytes and end of input; plus oversized/undersized startup packets and "
             "password messages (MC_C10pre). It checks: one non-fatal 54000 ErrorResponse and the session continues; "
             "before the session the connection ends; a fitting message reaches its parser. The transition cover is "
             "executed on the real server with L instantiated from {16,17,64,4095,4096,4097,8192,65536} (thorough: also "
             "the 16 MiB default via 0 and -1); TLC validates the reaction to every message and to the one after it. "
             "Random driver: 12 limits, lengths around them, pipelining.")
    if not cx.violations:
        # the same limit applies after the connection was upgraded to TLS: the size-limit sessions once more, inside
        # a TLS session (real crypto/tls client), judged by the same machine
        b = gen_random(cx, "C10tls", 1500 if cx.tier == "thorough" else 150, tag="tls")
        trace, crash = play(cx, b, "tls", extra=["-proj", "C11"])
        rejected = [] if crash else validate(cx, trace, "Trace_PgConn")
        judge(cx, b, trace, rejected, crash, "Trace_PgConn", play_extra=["-proj", "C11"])
        rule += " The random size-limit sessions are also run inside TLS sessions (the limit is the configured one there too)."
    return finish(cx, "model_checking", rule, ASSUME_CONN)


def c20(cx):
    return conn_family(
        cx, "MC_C20", "C20", 2000, 150000,
        consts_thorough={"MaxToks": 5},
        rule="ParseParameters is transcribed into TLA+ (PgOps.CountParams) and TLC enumerates every query of up to MaxToks "
             "tokens over text, '?' and '$n' with n in {0,1,2,3,5,65535} or beyond the 65535 limit (up to > 2^64), "
             "checking the counting rules on the operator; each query is rendered with random filler text, the real "
             "ParseParameters is called directly (a panic kills the harness process and is reported) and - for purely "
             "$n-style-within-limit or purely ?-style queries - a statement using it is parsed and described through the "
             "real server; TLC validates the returned length and zero types, and the ParameterDescription count. Random "
             "driver: up to 40 tokens, indexes to 65535 and beyond.",
        max_replay_quick=None)


TB_SRV = ["TLC 1.8.0 (model checking incl. liveness, trace validation)",
          "harness: schedule gates at the verif hook points (goroutines parked until released), goroutine state "
          "inspection (runtime.Stack) to tell 'blocked on the server mutex / WaitGroup' from 'stuck', event log under one mutex",
          "Go runtime / compiler"]


def c16(cx):
    build_harness(cx)
    thorough = cx.tier == "thorough"
    big = {"Conns": '{"c1", "c2"}', "MaxCmds": 2} if thorough else None
    # the design has the property (safety on the bounded model, liveness on the unbounded actions)
    model_check(cx, "MC_C16", consts=({"Conns": '{"c1", "c2"}'} if thorough else None), export=False)
    model_check(cx, "MC_C16_live", export=False, workers=4)
    if thorough:
        model_check(cx, "MC_C16", cfg="MC_C16_pinned.cfg", expect_violation="is violated", export=False)
        # beyond TLC's population: an inductive invariant of the design for 4 callers x 4 connections (Apalache)
        pgserver_inductive(cx)
    # schedules: every interleaving of the permissive (lock-free) scheduler model, replayed on real goroutines
    b = model_check(cx, "MC_C16", cfg="MC_C16_sched.cfg", consts=big)
    subsample(cx, b, 20000 if thorough else 3000)
    sample_behaviours(cx, b)
    trace, crash = play(cx, b, "sched", cmd="sched")
    rejected = [] if crash else validate(cx, trace, "Trace_PgServer")
    judge(cx, b, trace, rejected, crash, "Trace_PgServer", play_cmd="sched")
    files = [b]
    if not thorough:
        # two connections (both may be inside a handler while Close waits) with one Close call: the quick tier's share
        # of what the thorough tier does with two callers
        b2 = model_check(cx, "MC_C16", cfg="MC_C16_sched.cfg", consts={"Closers": '{"k1"}', "Conns": '{"c1", "c2"}'})
        def both_in_handlers(steps):
            # both connections are inside a handler while the Close call waits, before either handler finishes
            seen = set()
            for st in steps:
                a, act = st.get("a"), st.get("act")
                if act == "CFinish":
                    return {"c1", "c2", "k"} <= seen
                if act == "CStart":
                    seen.add(a)
                if act == "KWaitBegin":
                    seen.add("k")
            return False
        subsample(cx, b2, 1500, must=both_in_handlers)
        trace, crash = play(cx, b2, "sched2", cmd="sched")
        rejected = [] if crash else validate(cx, trace, "Trace_PgServer")
        judge(cx, b2, trace, rejected, crash, "Trace_PgServer", play_cmd="sched")
        files.append(b2)
    count_distinct(cx, *files)
    cx.cov["trusted_base"] = TB_SRV
    return finish(cx, "model_checking",
                  "TLC checks on PgServer (one action per hook point of Close and of command admission): no double "
                  "close, WaitGroup counter never negative, Close returns only when no handler runs, no handler starts "
                  "after a Close returned (2 closers x 1-2 connections), and under fairness every Close returns and "
                  "Serve returns nil (liveness, 2x2, no state constraint); thorough: an inductive invariant of the design "
                  "(PgServerInd: mutex holder, flag/channel, WaitGroup = closer goroutine + commands in flight, what a "
                  "holder read is still true) is discharged by Apalache for 4 Close callers x 4 connections and implies the "
                  "same safety properties. Every interleaving of the lock-free scheduler "
                  "model (a superset of what the code allows: Close calls and commands - delivered whole or in two parts "
                  "- released step by step) is replayed on real goroutines parked at the hook points; the real order of "
                  "releases, arrivals, Close returns/panics, listener close and Serve return is validated by TLC against "
                  "the repaired design (Trace_PgServer; goroutines blocked on the mutex or WaitGroup are recognised by "
                  "their scheduler state, not by timeouts). distinct_nontrivial = distinct schedules replayed.",
                  ["connections are already in a session when the schedule starts",
                   "handlers terminate (the scripted handler returns once released)"])


def c14(cx):
    build_harness(cx)
    thorough = cx.tier == "thorough"
    # thorough: up to two cuts per scenario (measured: 291k states / 36.8k scenarios in 30 s); two-row tables
    # with every cut set do not finish in an hour and are left to the random driver
    b1 = model_check(cx, "MC_C14", consts=({"MaxCuts": 2, "MaxExt": 1} if thorough else None), timeout=3000)
    files = [("tlc", subsample(cx, b1, 60000 if thorough else 5000))]
    files.append(("rand", gen_random(cx, "C14", 20000 if thorough else 1500)))
    for tag, b in files:
        sample_behaviours(cx, b)
        trace, crash = play(cx, b, tag, cmd="copybin")
        rejected = [] if crash else validate(cx, trace, "Trace_PgCopyBin")
        judge(cx, b, trace, rejected, crash, "Trace_PgCopyBin", play_cmd="copybin")
    count_distinct(cx, *[f[1] for f in files])
    cx.cov["trusted_base"] = TB_CONN + ["harness: own binary encoders for the supported types, canonical rendering of decoded Go values"]
    return finish(cx, "model_checking",
                  "TLC runs the reassembling row reader of PgCopyBin on every scenario of the bounded family (tables up to "
                  "MaxRows x 2 columns with NULL / empty / 1- and 2-cell values; header and trailer present or not; every "
                  "field-count corruption of every row; truncation after every cell; every set of up to MaxCuts cuts - "
                  "inside signature, flags, count, length and value - plus one-cell-per-chunk) and checks that the rows and "
                  "the end status equal the chunk-independent expectation, never a fabricated row. Each scenario is encoded "
                  "by the harness with real typed values, cut into CopyData messages at the corresponding byte offsets and "
                  "read on the real server through NewBinaryColumnReader; TLC validates the returned rows (canonical values, "
                  "NULLs) and the end (EOF / error). Random driver: 1-4 columns, 6 rows, 13 types, byte-level cuts down to "
                  "one byte per chunk, empty chunks, corrupted counts, truncation at any byte.",
                  ASSUME_CONN + ["a corrupted field LENGTH that is not a truncation cannot be detected by any reader and is outside the statement"])


def c09(cx):
    return conn_family(
        cx, "MC_C09", "C09", 600, 36000,
        consts_thorough={"MaxCols": 4},
        rule="TLC enumerates every row of 1..MaxCols cells over {value, untyped nil, nil pointer, invalid nullable, non-NULL "
             "empty} under the simple protocol and under every admissible result-format list of the extended protocol "
             "(Parse, Bind, Describe portal, Execute, Sync), checking arity and NULL/empty marking on the model; the "
             "harness substitutes column types (bool, int2/4/8, float4/8, text, varchar, bytea, uuid, date, timestamp, "
             "timestamptz) and boundary/random values (plain or behind a pointer), runs each conversation on the real "
             "server, decodes every DataRow field with its own text/binary decoders in the announced format and TLC "
             "compares the canonical rendering with that of the value written, field count with the RowDescription, "
             "length -1 for every NULL kind and length 0 for empties. Random driver: 1-8 columns, 10 rows, 3 rounds.")


def c02(cx):
    build_harness(cx)
    thorough = cx.tier == "thorough"
    # (a) the frame writer itself: every operation sequence, failing underlying writer, abandoned frames
    b = model_check(cx, "MC_PgWriter", consts=({"MaxOps": 6, "MaxFail": 3} if thorough else None))
    sample_behaviours(cx, b)
    trace, crash = play(cx, b, "writer", cmd="writer")
    rejected = [] if crash else validate(cx, trace, "Trace_PgWriter")
    judge(cx, b, trace, rejected, crash, "Trace_PgWriter", play_cmd="writer")
    files = [b]
    # (b) every byte any driver makes the server emit goes through the grammar
    n = 3000 if thorough else 250
    for fam in ["C02", "C05", "C06", "C08", "C09", "C13", "C17", "C12", "C01", "C19", "C10", "C07", "C08odd", "C13odd"]:
        # "...odd": the same families with inputs outside the protocol's domain (format-code lists that are neither
        # empty, single nor complete): what the server answers is not prescribed, that it is well-formed is
        odd = fam.endswith("odd")
        g = gen_random(cx, fam[:3], n, tag="rand-" + fam, extra=(["-odd"] if odd else None))
        files.append(g)
        if fam == "C17":
            sample_behaviours(cx, g)
        trace, crash = play(cx, g, "wire-" + fam, extra=["-proj", "C02"])
        rejected = [] if crash else validate(cx, trace, "Trace_PgWire")
        judge(cx, g, trace, rejected, crash, "Trace_PgWire", play_extra=["-proj", "C02"])
    count_distinct(cx, *files)
    cx.cov["trusted_base"] = TB_CONN
    return finish(cx, "model_checking",
                  "(a) PgWriter: TLC enumerates every sequence of up to MaxOps Start/Add*/End/Reset operations with the "
                  "underlying writer failing from its k-th Write on, checks that what the sink accepted is always a sequence "
                  "of complete, correctly sized messages and that a frame started after a failed or abandoned one is fresh; "
                  "each sequence is replayed on the real buffer.Writer (public API, failing io.Writer) and validated by TLC "
                  "against the same actions (frame length after every operation, End result, newly sunk message type and "
                  "length, nothing trailing). (b) the output of the real server under the drivers of eleven property "
                  "families (simple/extended query with rejected and abandoned rows, typed values, COPY, decorated errors, "
                  "startup, auth, lifecycle, size limit) is framed and decoded by the strict decoder; TLC checks every "
                  "message against the backend grammar PgOps.GrammarOK (known type, every field present, declared = actual "
                  "counts, nothing trailing, ErrorResponse terminated / no duplicate field / mandatory fields) and that no "
                  "partial frame is left at the end.",
                  ASSUME_CONN + ["the byte-to-structural-facts scanner of the harness is trusted (the grammar decision is TLA+'s)"])


def c03(cx):
    build_harness(cx)
    thorough = cx.tier == "thorough"
    files = []
    # (a) the reader itself: framing over arbitrary segmentations, and the accessor cursor
    b1 = model_check(cx, "MC_PgReader", consts=({"MaxMsgs": 5} if thorough else None))
    b2 = model_check(cx, "MC_PgReader", cfg="MC_PgReader_acc.cfg", consts=({"MaxBody": 6, "MaxOps": 5} if thorough else None))
    for tag, b in (("frames", b1), ("access", b2)):
        subsample(cx, b, 60000 if thorough else 6000)
        sample_behaviours(cx, b, 1)
        trace, crash = play(cx, b, "reader-" + tag, cmd="reader")
        rejected = [] if crash else validate(cx, trace, "Trace_PgReader")
        judge(cx, b, trace, rejected, crash, "Trace_PgReader", play_cmd="reader")
        files.append(b)
    # (b) the whole server: the same byte stream under five segmentations
    g = gen_random(cx, "C03", 4000 if thorough else 300)
    files.append(g)
    sample_behaviours(cx, g, 1)
    trace, crash = play(cx, g, "seg", cmd="segplay", extra=["-proj", "C03"])
    rejected = [] if crash else validate(cx, trace, "Trace_PgConn")
    judge(cx, g, trace, rejected, crash, "Trace_PgConn", play_cmd="segplay", play_extra=["-proj", "C03"])
    count_distinct(cx, *files)
    cx.cov["trusted_base"] = TB_CONN
    return finish(cx, "model_checking",
                  "(a) PgReader: TLC enumerates every sequence of up to MaxMsgs message sizes around the granule and the "
                  "limit (oversized ones skipped chunk by chunk) and every body of up to MaxBody NUL/non-NUL cells with every "
                  "sequence of up to MaxOps accessor calls (GetBytes 0..3, GetUint16, GetUint32, GetString), checking that the "
                  "cursor never leaves the body; each is replayed on the real buffer.Reader over an io.Reader that delivers "
                  "1 byte, random pieces or everything per read - accessor runs on two consecutive messages with the same "
                  "body so that unread bytes of the first cannot leak into the second - and TLC validates every outcome "
                  "(success iff enough bytes remain in THIS message, exactly the next bytes returned, sizes, errors, no "
                  "panic). (b) server level: random sessions (simple, extended with surplus OIDs / row limits, COPY, "
                  "unknown, stray and malformed messages) are executed five times - message by message, all at once, byte "
                  "by byte, random cuts, cuts inside every header; each execution is validated by TLC against PgConn and "
                  "the digest of its transcript (messages and callbacks in order) must equal that of the first.",
                  ASSUME_CONN)


def c18(cx):
    build_harness(cx)
    thorough = cx.tier == "thorough"
    files = []
    # (a) the allocation window of the reader: windows handed out are never written again
    b1 = model_check(cx, "MC_PgReader", consts=({"MaxMsgs": 6} if thorough else {"MaxMsgs": 5}))
    subsample(cx, b1, 80000 if thorough else 8000)
    sample_behaviours(cx, b1, 1)
    trace, crash = play(cx, b1, "reader-frames", cmd="reader")
    rejected = [] if crash else validate(cx, trace, "Trace_PgReader")
    judge(cx, b1, trace, rejected, crash, "Trace_PgReader", play_cmd="reader")
    files.append(b1)
    # (b) the server: callbacks retain query texts, parameter values, client parameters, passwords
    g = gen_random(cx, "C18", 6000 if thorough else 400)
    files.append(g)
    sample_behaviours(cx, g, 1)
    trace, crash = play(cx, g, "retain", extra=["-proj", "C18"])
    rejected = [] if crash else validate(cx, trace, "Trace_PgConn")
    judge(cx, g, trace, rejected, crash, "Trace_PgConn", play_extra=["-proj", "C18"])
    count_distinct(cx, *files)
    cx.cov["trusted_base"] = TB_CONN
    return finish(cx, "model_checking",
                  "(a) PgReader's allocation machine (window advances into spare capacity or a fresh allocation of "
                  "max(size, 4096); oversized messages skipped in chunks): TLC enumerates every sequence of up to MaxMsgs "
                  "message sizes around the granule and the limit and checks that no window ever overlaps a body handed out "
                  "earlier; each sequence is replayed on the real buffer.Reader where the harness keeps every body it was "
                  "given (and a copy) and reports capacity, allocation identity and intactness after every operation, which "
                  "TLC validates against the same machine. (b) on the real server the scripted callbacks retain every query "
                  "text, parameter value, client parameter and password (the very strings and slices they were handed) with "
                  "private copies; sessions then continue with padded queries, Bind parameters, skipped oversized messages "
                  "and COPY data of sizes around 4096 and the limit; every later callback and the end of the run report "
                  "whether everything retained is still intact, which the specification requires.",
                  ASSUME_CONN)


def c11(cx):
    return conn_family(
        cx, "MC_C11", "C11", 400, 18000,
        rule="TLC explores the TLS negotiation on the bounded model: server without TLS configuration, with an empty "
             "certificate list, with a certificate; client starting in plaintext, sending SSLRequest (alone, with plaintext "
             "stuffed behind it in the same segment, with plaintext pushed in a later segment before the handshake), "
             "completing the handshake, then a startup packet and a small session, a second SSLRequest or a CancelRequest - "
             "inside the TLS session or in plaintext after 'N'; it checks 'S' only with certificates, nothing dispatched "
             "while the handshake is pending, stuffing never dispatched. The transition cover is executed on the real "
             "server with a real crypto/tls client over a tapped in-memory wire (self-signed certificate generated at run "
             "time); TLC validates that every raw server write after 'S' consists of TLS records, and that the protocol "
             "conversation the TLS client sees inside the session is a behaviour of the same PgConn machine as in "
             "plaintext. Random driver: whole simple / extended / COPY sessions inside TLS and after 'N'.",
        max_replay_quick=None)


def c15(cx):
    thorough = cx.tier == "thorough"
    build_harness(cx, race=True)
    # the sharing structure has no concurrent access to a type map; the pinned one has (negative self-test)
    model_check(cx, "PgShare", cfg="MC_PgShare.cfg", export=False)
    if thorough:
        model_check(cx, "PgShare", cfg="MC_PgShare_pinned.cfg", expect_violation="NoConcurrentMapAccess is violated", export=False)
    b = model_check(cx, "MC_C15", consts=({"NC": 3, "Plans": "PlansThorough"} if thorough else None), timeout=3000)
    subsample(cx, b, 4000 if thorough else 400)
    sample_behaviours(cx, b)
    trace, crash = play(cx, b, "multi", cmd="multi", extra=["-proj", "C15"])
    if crash and "DATA RACE" in crash["output"]:
        # auxiliary monitor (thorough): the race detector saw unsynchronised access in the library
        race = [l for l in crash["output"].splitlines() if "/repo/" in l or "psql-wire" in l][:6]
        d = os.path.join("/verif", "replays", cx.pid, "race-%d" % cx.seed)
        os.makedirs(d, exist_ok=True)
        open(os.path.join(d, "race.txt"), "w").write(crash["output"])
        cx.violations.append(("data race reported by the Go race detector: " + " | ".join(x.strip() for x in race), d))
        crash = None
        rejected = []
    else:
        rejected = [] if crash else validate(cx, trace, "Trace_PgConn")
    judge(cx, b, trace, rejected, crash, "Trace_PgConn", play_cmd="multi", play_extra=["-proj", "C15"])
    count_distinct(cx, b)
    cx.cov["trusted_base"] = TB_SRV + ["Go race detector (auxiliary monitor)"]
    return finish(cx, "model_checking",
                  "TLC checks on PgShare that, with one type map per connection, no two connections are ever inside the "
                  "same map and the global parameter map is only read (the one-map-per-server design of the pinned tree is "
                  "kept as a negative self-test). A scheduler model generates every interleaving of the sends of 2 (thorough: "
                  "3) concurrent sessions and of the releases of statement functions parked at a gate; each schedule runs on "
                  "one real server with sessions that deliberately use the same statement and portal names, different users, "
                  "databases and row types; the recording of every connection - preamble, ParameterStatus values, replies, "
                  "which definition ran with which parameters, what every callback saw in its context - is validated by TLC "
                  "against the single-connection specification PgConn, i.e. it is what that client's traffic produces on a "
                  "server serving it alone; the type maps each connection encoded with (verif hook around Encode) must be its "
                  "own. The harness is built with -race and any report naming the library is a violation.",
                  ASSUME_CONN + ["the race detector is an auxiliary monitor outside the TLA+ family (DESIGN 4 C15)"])


def survive_wedged(cx, b, trace, line_no, fam):
    """A connection that did not end after its input ended: find the behaviour, replay it alone."""
    from check import read_idx, bundle
    idx = read_idx(trace)
    beh = next((k for (a, z, k) in idx if a <= line_no + 1 <= z), None)
    if beh is None:
        raise Machinery("wedged connection outside any execution")
    one = os.path.join(cx.scratch, "one-wedged.ndjson")
    open(one, "w").write(read_lines(b)[beh] + "\n")
    for attempt in range(3):
        t2, c2 = play(cx, one, "rewedge", extra=["-proj", fam, "-seedindex", str(beh)])
        if c2 or any('"k":"wedged"' in l for l in read_lines(t2)):
            what = "connection left hanging after its input ended (session of family %s)" % fam
            d = bundle(cx, what, read_lines(b)[beh], read_lines(t2) if not c2 else [], "", extra={"seedindex": beh})
            cx.violations.append((what, d))
            return
    raise Machinery("a hanging connection did not reproduce")


def c04(cx):
    build_harness(cx)
    thorough = cx.tier == "thorough"
    files = []

    def stage(tag, b, cmd, trace_module, extra=None):
        files.append(b)
        sample_behaviours(cx, b, 1)
        trace, crash = play(cx, b, tag, cmd=cmd, extra=extra)
        rejected = [] if crash else validate(cx, trace, trace_module)
        judge(cx, b, trace, rejected, crash, trace_module, play_cmd=cmd, play_extra=extra)

    # (a) every malformation class in every phase, with continuations and end of input; then a probe connection
    b = model_check(cx, "MC_C04", consts=({"MaxSends": 6} if thorough else None))
    subsample(cx, b, 40000 if thorough else 4000)
    stage("hostile", b, "play", "Trace_PgConn", ["-proj", "C04"])
    # (b) valid sessions with the transport failing at the k-th read / write / after n bytes; then a probe
    stage("faults", gen_random(cx, "C04F", 8000 if thorough else 600, tag="faults"), "play", "Trace_PgConn", ["-proj", "C04"])
    # (c) random / mutated bytes, count bombs, gigabyte headers, hostile COPY streams, helper fuzzing; then a probe
    stage("junk", gen_random(cx, "C04J", 20000 if thorough else 1500, tag="junk"), "junk", "Trace_Robust")
    # (d) survival under the sessions of the other families (valid traffic, odd corners included: result / parameter
    #     format lists that are neither empty, single nor complete): no verdict on what is answered - that belongs
    #     to those properties - only that the process stays alive and no connection is left hanging
    for fam in ["C06", "C07", "C08", "C13", "C09", "C05", "C19", "C11", "C12"]:
        b = gen_random(cx, fam, 1500 if thorough else 150, tag="surv-" + fam, extra=["-odd"])
        files.append(b)
        trace, crash = play(cx, b, "surv-" + fam, extra=["-proj", fam])
        if crash:
            judge(cx, b, trace, [], crash, "Trace_PgConn", play_extra=["-proj", fam])
        else:
            hung = [i for i, l in enumerate(read_lines(trace)) if '"k":"wedged"' in l]
            cx.cov["survival_executions"] = cx.cov.get("survival_executions", 0) + len(read_lines(trace + ".idx"))
            if hung:
                survive_wedged(cx, b, trace, hung[0], fam)
    count_distinct(cx, *files)
    cx.cov["trusted_base"] = TB_CONN + ["runtime.MemStats.TotalAlloc deltas", "process death / bounded waits observed by the orchestrator"]
    return finish(cx, "model_checking",
                  "(a) TLC explores on the bounded model every malformation class (unparseable body of every message type: "
                  "missing terminator, short field, count beyond the body; declared length below the minimum / beyond the "
                  "limit; unknown type; a header declaring 2^31 bytes) in every phase (startup, after a refused SSL request, "
                  "authentication, session, discarding, inside COPY) with continuations and end of input, checking that no "
                  "such message reaches a callback and that the only step after the end of input closes the connection; each "
                  "behaviour runs on the real server, followed by a probe connection on the same server; TLC validates the "
                  "reaction (close, or error and continue; never a callback), the close after end of input, the probe session "
                  "and the measured allocation per hostile message (<= 4*max(L,4096) + 2*sent + 4 MiB). (b) valid sessions with "
                  "the transport failing at the k-th read, k-th write or after n bytes: nothing is emitted after the fault and "
                  "the connection is closed; probe. (c) random and mutated byte strings on fresh connections and after startup, "
                  "count bombs (65535 announced codes / parameters / types, 2^31-byte parameter, gigabyte headers), hostile "
                  "binary COPY streams read through the library's row reader, direct fuzzing of ParseParameters and "
                  "Parameter.Scan: validated against Trace_Robust (process alive, connection closed after its input ends, "
                  "allocation bound, helpers return, probe served exactly as usual). (d) random sessions of nine other families (TLS sessions under several TLS configurations and start-up packets among them) "
                  "(odd format-code lists included) judged for survival only. A crash of the server kills the harness "
                  "process and is reported with the input that caused it.",
                  ASSUME_CONN + ["waits are bounded (10 s) only to detect a wedged connection"])


PROPS = {"C04": c04, "C15": c15, "C11": c11, "C18": c18, "C03": c03, "C02": c02, "C09": c09, "C14": c14, "C16": c16, "C20": c20, "C10": c10, "C19": c19, "C12": c12, "C01": c01, "C13": c13, "C05": c05, "C06": c06, "C07": c07, "C08": c08, "C17": c17}


def replay(cx, path):
    """Re-drive a replay bundle and re-validate it."""
    path = os.path.abspath(path)
    meta = json.load(open(os.path.join(path, "meta.json")))
    build_harness(cx)
    if meta.get("play_cmd", "").startswith("flow-"):
        # a recorded conversation: record again from the same source and judge with PgFlow
        source = meta["play_cmd"][5:]
        b = os.path.join(path, "behaviour.ndjson")
        cx.seed = meta.get("seed", cx.seed)
        for attempt in range(3):
            t2, c2 = flow_record(cx, source, b if source == "play" else None, "replay%d" % attempt)
            if c2:
                log("replay: server crashed: " + c2["output"][-500:])
                log("VIOLATION property=%s replay=%s" % (cx.pid, path))
                return 1
            rj = [r for r in validate(cx, t2, "Trace_PgFlow") if flow_attribution(r["tlc"]) == cx.pid]
            if rj:
                log(rj[0]["tlc"])
                log("VIOLATION property=%s replay=%s" % (cx.pid, path))
                return 1
        log("replay: accepted (the violation does not reproduce on this tree)")
        return 0
    b = os.path.join(path, "behaviour.ndjson")
    extra = ["-seedindex", str(meta.get("seedindex", 0))]
    cx.seed = meta.get("seed", cx.seed)
    trace, crash = play(cx, b, "replay", cmd=meta.get("play_cmd", "play"), extra=extra)
    if crash:
        log("replay: server crashed: " + crash["output"][-500:])
        log("VIOLATION property=%s replay=%s" % (cx.pid, path))
        return 1
    ok, tout = validate_single(cx, read_lines(trace), meta["trace_module"], meta.get("trace_cfg"))
    log(tout)
    if ok:
        log("replay: accepted (the violation does not reproduce on this tree)")
        return 0
    log("VIOLATION property=%s replay=%s" % (cx.pid, path))
    return 1
