#!/bin/sh
# Offline setup: parse every spec module with SANY and warm the Go build cache.
set -e
cd "$(dirname "$0")/.."
export GOFLAGS=-mod=mod GOPROXY=off GOSUMDB=off GOTOOLCHAIN=local
T=$(mktemp -d /tmp/pgverif-setup-XXXXXX)
trap 'rm -rf "$T" 2>/dev/null' EXIT
mkdir -p "$T/jtmp"
export JAVA_TOOL_OPTIONS="-Djava.io.tmpdir=$T/jtmp"
cp spec/*.tla "$T"/
for f in "$T"/*.tla; do
  (cd "$T" && timeout 120 tla-sany "$(basename "$f")" >/dev/null 2>&1) || { echo "SANY failed on $f"; (cd "$T" && tla-sany "$(basename "$f")" | tail -20); exit 1; }
done
cp /repo/go.sum harness/go.sum
(cd harness && go build -tags verif -o "$T/pgverif" ./cmd/pgverif)
echo "setup ok"
