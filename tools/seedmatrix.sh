#!/bin/bash
# Runs every seeded change (seeded/*/patch.diff) against the checks named in its meta.json "caught_by"
# (and confirms the demonstration, when there is one). Output: one line per (change, check).
cd "$(dirname "$0")/.."
ROOT=$(pwd)
export GOFLAGS=-mod=mod GOPROXY=off GOSUMDB=off GOTOOLCHAIN=local
# optional arguments: K N - only every N-th change, starting with the K-th (shards that can run side by side)
K=${1:-0}; N=${2:-1}; idx=-1
for d in seeded/*/; do
  name=$(basename $d)
  [ -f $d/patch.diff ] || continue
  idx=$((idx+1)); [ $((idx % N)) -eq $K ] || continue
  ids=$(python3 -c "import json,re;m=json.load(open('$d/meta.json'));print(' '.join(sorted(set(re.findall(r'C[0-9][0-9]',' '.join(m.get('caught_by',[])))))))")
  wt=/tmp/seedmx-$name
  git -C /repo worktree remove --force $wt >/dev/null 2>&1; rm -rf $wt
  git -C /repo worktree add -q --detach $wt HEAD || { echo "$name: cannot create worktree"; continue; }
  if ! (cd $wt && git apply $ROOT/$d/patch.diff 2>/dev/null); then echo "$name: PATCH DOES NOT APPLY"; git -C /repo worktree remove --force $wt; continue; fi
  if ! (cd $wt && go build ./... 2>/dev/null && go build -tags verif ./... 2>/dev/null); then echo "$name: DOES NOT BUILD"; git -C /repo worktree remove --force $wt; continue; fi
  suite=FAIL
  for i in 1 2 3; do if (cd $wt && go test -vet=off -count=1 ./... >/tmp/seedmx-$name.suite 2>&1); then suite=pass; break; fi; grep -q "Log in goroutine after" /tmp/seedmx-$name.suite || break; done
  for id in $ids; do
    r=$(VERIF_REPO=$wt timeout 1500 ./check $id quick 2>&1 | grep -a -E "^VIOLATION|\[ok\]|MACHINERY" | head -1 | cut -c1-80)
    echo "$name suite=$suite $id: $r"
  done
  git -C /repo worktree remove --force $wt
  rm -f /tmp/seedmx-$name.suite
done
