#!/usr/bin/env python3
"""Regenerates /verif/MANIFEST.json from the table below (keeps it valid at all times)."""
import json, os, subprocess
VERIF = os.path.dirname(os.path.dirname(os.path.abspath(__file__)))
ALL = ["C%02d" % i for i in range(1, 21)]

# id -> (level text, level note, technique, design_ref)
CLAIMED = {
 "C05": ("TLC checks the cycle-shape / writer-machine invariants on the bounded PgConn model (every parser outcome x "
         "every result-writer program up to a bound) and exports one behaviour per explored client step; each is run "
         "on the real server (rebuilt from /repo) and the recording is validated by TLC against the same spec actions "
         "(Trace_PgConn), together with seeded random longer sessions. Exhaustive within the bounds for the abstract "
         "protocol, sampled for concrete values.",
         "Trusted: TLC, the harness (in-memory transport, strict decoder, scripted handlers, projection). Row payload "
         "fidelity is C09's business; error fields C17's.",
         "TLA+ spec (PgConn) + TLC model checking + TLC trace validation of executions of the real server driven by "
         "TLC-generated and random behaviours; also TLC trace validation (PgFlow) of conversations recorded from the "
         "repository's own test suite through the connection recorder hook", "4 C05"),
}
CONN_NOTE = ("Trusted: TLC, the harness (in-memory transport whose event log is ordered under one mutex, strict "
             "PostgreSQL v3 decoder, scripted callbacks, per-property projection, own value codecs). Bounds: the constants "
             "of the MC_* config; concrete values are sampled with VERIF_SEED.")
CONN_TECH = ("TLA+ spec (PgConn) + TLC model checking + TLC trace validation of executions of the real server driven by "
             "TLC-generated (transition cover) and seeded random behaviours; for C01/C05/C06/C10/C12/C13/C19 also TLC "
             "trace validation (handler-agnostic spec PgFlow) of conversations recorded through the connection recorder "
             "hook from the repository's own test suite and from the random sessions")
CLAIMED.update({
 "C06": ("TLC checks on the bounded extended-protocol model (names {'',a} x portals {'',p}, failing/succeeding parsers and "
         "handlers, interleaved simple/oversized/unknown messages) that ReadyForQuery is emitted only for Sync, that a "
         "failure emits exactly one ErrorResponse and nothing until Sync, and that no callback runs while discarding; the "
         "transition cover of that model and random longer pipelined histories are executed on the real server and every "
         "recording is validated by TLC against the same actions (reply kinds per message, idle only when nothing is owed).",
         CONN_NOTE, CONN_TECH, "4 C06"),
 "C07": ("TLC explores every history of Parse/Bind/Describe/Execute/Close over two statement and two portal names with a "
         "fresh definition id per Parse; behaviours are replayed on the real server where the statement callback reports "
         "which definition ran with which parameters; TLC validates each recording against the spec's name maps.",
         CONN_NOTE + " Cross-connection isolation of names is judged by C15's multi-connection runs.", CONN_TECH, "4 C07"),
 "C08": ("TLC enumerates every admissible Bind (parameter count/classes/format lists, result format lists) of the bounded "
         "model; conversations run on the real server with real typed values; TLC validates parameter count, order, byte "
         "digests, NULL-ness, format tags, Scan results, ParameterDescription, RowDescription formats and the encoding "
         "found in each DataRow field.",
         CONN_NOTE + " Scan results and field encodings are judged through the harness's own codecs.", CONN_TECH, "4 C08"),
 "C13": ("TLC explores every client message sequence of bounded length following a CopyInResponse against handlers that "
         "read to the end, stop early or fail; the transition cover and random COPY sessions (large binary payloads, "
         "pipelining, extended protocol) run on the real server; TLC validates the CopyInResponse, the class and digest of "
         "every Read in order, one ErrorResponse + one ReadyForQuery per aborted cycle, silence for stray COPY messages.",
         CONN_NOTE + " Handlers propagate a non-EOF read error (E22).", CONN_TECH, "4 C13"),
 "C17": ("TLC enumerates every decorator stack up to a depth bound and checks the flattening rules on the spec operators; "
         "each error is built with the real errors package, returned through the parser, simple and extended handler paths "
         "and direct ErrorCode calls (nil included) of the real server; TLC validates every ErrorResponse field for field.",
         CONN_NOTE + " Texts are NUL-free and non-empty (E19, E21).", CONN_TECH, "4 C17"),
 "C01": ("TLC checks on the bounded authentication model (validator accept/reject/fail x every message in place of the "
         "password x continuations, pipelined or not) that the authenticated phases and everything they emit are "
         "reachable only through an accepting validator call; the transition cover and random credentials run on the real "
         "server with the real ClearTextPassword strategy; TLC validates reply kinds, SQLSTATE class 28, validator "
         "arguments and the absence of any later callback.", CONN_NOTE, CONN_TECH, "4 C01"),
 "C12": ("TLC explores startup packets (duplicates, empties, missing terminator), configured parameter maps colliding "
         "with the built-ins, version, auth, refused SSL and Cancel at each stage; replayed on the real server; TLC "
         "validates the ParameterStatus set (each key once, any order), the single ReadyForQuery, the parameters seen "
         "by callbacks and the unchanged global map.",
         CONN_NOTE + " Leakage between concurrent connections is judged by C15's multi-connection runs.", CONN_TECH, "4 C12"),
 "C19": ("TLC explores middleware lists (succeed/fail at any position), auth, terminate hook and command histories; replayed "
         "on the real server whose callbacks report marker chain, parameters, remote address, type map, liveness of the "
         "command context and cancellation of the previous one; TLC validates order, propagation, cancellation and the "
         "terminate hook.", CONN_NOTE, CONN_TECH, "4 C19"),
 "C10": ("TLC explores sessions over a symbolic limit L (bodies L, L-1, small; declared L+1..3L+7 for all 14 message types; "
         "declared 0..3; headers declaring 2^31..2^32-1 then end of input; oversized startup/password messages) and "
         "checks one non-fatal 54000 error + continuation, or close before the session; the transition cover runs on the "
         "real server with L instantiated from eight concrete limits (thorough: also the 16 MiB default); TLC validates "
         "the reaction to each message and to the one after it.",
         CONN_NOTE + " That an oversized body is never buffered is measured by C04 (allocation) and C18/PgReader (capacity).",
         CONN_TECH, "4 C10"),
 "C20": ("ParseParameters is transcribed into TLA+ (PgOps.CountParams); TLC enumerates every query up to a token bound "
         "over text/?/$n (n up to and beyond 65535) and checks the counting rules; each query is rendered and the real "
         "function is called directly (crash = violation) and through Parse + Describe on the real server; TLC validates "
         "lengths, zero types and the ParameterDescription count.",
         CONN_NOTE, "pure function transcribed into TLA+ (PgOps.CountParams), enumerated by TLC, each case replayed on "
         "the real function and through the real server, validated by TLC", "4 C20"),
 "C16": ("TLC checks the lifecycle model PgServer (one action per hook point of Close and command admission): safety "
         "(no double close, counter never negative, Close returns only when no handler runs, no handler starts after a "
         "Close returned) on the bounded model and liveness (every Close returns, Serve returns nil) under fairness; the "
         "pinned design is kept as a negative self-test. Every interleaving of a permissive scheduler model is replayed on "
         "real goroutines parked at the verif hook points, and the real order of releases, arrivals, returns, panics, "
         "listener close and Serve return is validated by TLC against the repaired design.",
         "Trusted: TLC, the schedule gates and goroutine-state inspection of the harness, the hook points (add-only, "
         "build tag verif). Bounds: 2 closers x 1-2 connections x 1-2 commands.",
         "TLA+ spec (PgServer) + TLC safety/liveness model checking + replay of TLC-generated schedules on real goroutines "
         "through hook gates + TLC trace validation of the observed event order", "4 C16"),
 "C14": ("TLC runs the reassembling row reader of PgCopyBin over every scenario of a bounded family (tables, header/trailer, "
         "field-count corruptions, truncation after every cell, every small cut set) and checks chunk-insensitivity and "
         "no fabricated rows; every scenario is encoded with real typed values, cut into CopyData messages at the "
         "corresponding byte offsets, read on the real server through NewBinaryColumnReader and validated by TLC "
         "(rows, NULLs, end status); random scenarios add byte-level cuts, empty chunks and truncation at any byte.",
         CONN_NOTE + " Trusted additionally: the harness's binary encoders and the canonical rendering of decoded Go values.",
         "TLA+ spec (PgCopyBin) + TLC model checking of the reader algorithm over all scenarios + replay of each scenario "
         "on the real reader + TLC trace validation of the returned rows", "4 C14"),
 "C09": ("TLC enumerates every row shape of the bounded model (value / untyped nil / nil pointer / invalid nullable / empty "
         "per cell, every admissible result-format list, both protocols) and checks arity and NULL/empty marking; the "
         "harness substitutes 13 column types with boundary and random values, runs each conversation on the real server, "
         "decodes every field with its own text/binary decoders in the announced format, and TLC compares canonical "
         "renderings, field counts, -1 for NULLs and 0 for empties.",
         CONN_NOTE + " Value fidelity rests on the harness's independent decoders (the honest limit stated in DESIGN 4 C09).",
         CONN_TECH, "4 C09"),
 "C02": ("(a) TLC enumerates every bounded operation sequence of the frame writer (PgWriter) with a failing underlying "
         "writer and abandoned frames, checks the sink only ever holds complete, correctly sized messages; every sequence "
         "is replayed on the real buffer.Writer and validated by TLC. (b) the real server's output under the drivers of "
         "eleven property families is decoded into structural facts and TLC checks every message against the backend "
         "grammar (PgOps.GrammarOK) and that no partial frame is left.",
         "Trusted: TLC, the byte scanner producing structural facts (the grammar decision is made in TLA+), the harness. "
         "Handler-supplied strings contain no NUL.",
         "TLA+ specs (PgWriter, PgOps.GrammarOK) + TLC model checking + replay on the real writer + TLC validation of "
         "the decoded output of the real server under all drivers", "4 C02"),
 "C03": ("(a) PgReader: TLC enumerates message-size sequences around granule and limit and every small body x accessor-call "
         "sequence; each is replayed on the real buffer.Reader over an io.Reader delivering 1 byte / random pieces / "
         "everything per read (accessors on two consecutive messages with the same body), and TLC validates every outcome. "
         "(b) random sessions of all protocol families run on the real server under five segmentations of the same byte "
         "stream; each run is validated by TLC against PgConn and the transcript digests must coincide.",
         CONN_NOTE, "TLA+ specs (PgReader, PgConn) + TLC model checking + replay on the real Reader + TLC trace validation "
         "of five segmentations per stream with transcript-digest equality", "4 C03"),
 "C18": ("(a) the allocation machine of PgReader (advance into spare capacity or fresh allocation; oversized messages skipped "
         "in chunks): TLC checks that no window ever overlaps a body handed out earlier; every size sequence is replayed on "
         "the real buffer.Reader with the harness retaining every body, and TLC validates capacity, allocation identity and "
         "intactness after every operation. (b) on the real server the callbacks retain every query text, parameter value, "
         "client parameter and password with private copies while messages of sizes around 4096 and the limit (padded "
         "queries, parameters, skipped oversized messages, COPY data) follow; the specification requires every later "
         "callback and the end of the run to find everything intact.",
         CONN_NOTE, "TLA+ specs (PgReader allocation machine, PgConn) + TLC model checking + replay on the real Reader/server "
         "with retained data + TLC trace validation", "4 C18"),
 "C11": ("TLC explores the TLS negotiation (no TLS / empty list / certificate; plain start, SSLRequest alone or with stuffed "
         "plaintext in the same or a later segment, handshake, then session / second SSLRequest / Cancel inside TLS or "
         "after 'N') and checks that 'S' requires certificates, nothing is dispatched while the handshake is pending and "
         "stuffing never starts a session; the cover and random whole sessions run on the real server with a real "
         "crypto/tls client over a tapped in-memory wire; TLC validates that every raw write after 'S' is TLS records and "
         "that the conversation inside the session is a behaviour of the same PgConn machine.",
         CONN_NOTE + " Trusted additionally: Go's crypto/tls, the attribution of decrypted plaintext to the server write that carried it.",
         CONN_TECH, "4 C11"),
 "C15": ("TLC checks the sharing structure (PgShare: one type map per connection, global parameter map read-only) for "
         "concurrent access, and generates every interleaving of sends and handler-gate releases of 2-3 concurrent "
         "sessions; each schedule runs on one real server with sessions using the same names, different users and row "
         "types; every connection's recording is validated by TLC against the single-connection specification (= what "
         "the same traffic produces on a server serving it alone), and the type maps each connection encoded with must be "
         "its own (also for a connection accepted after another has gone). Around the schedule: a silent peer, a burst of "
         "connections, overlapping start-ups and logins, many cancel requests, concurrent TLS upgrades, a late connection. "
         "The harness is built with -race in both tiers.",
         "Trusted: TLC, the harness (gates, hook around Encode, per-connection projection). The race detector is an "
         "auxiliary monitor outside the TLA+ family. Bounds: 2-3 connections, 2-3 message groups each.",
         "TLA+ specs (PgShare, PgConn) + TLC model checking + TLC-generated interleavings replayed on concurrent real "
         "connections + per-connection TLC trace validation (+ -race monitor)", "4 C15"),
 "C04": ("TLC explores every malformation class in every phase with continuations and end of input on the bounded PgConn "
         "model (no callback ever, close after end of input); the cover, valid sessions with transport faults at every "
         "position, and unclassifiable input (random/mutated bytes, count bombs, gigabyte headers, hostile COPY streams, "
         "helper fuzzing) run on the real server, each followed by a probe connection; TLC validates reactions, closes, "
         "probe sessions and the measured allocation per hostile message; a process crash is reported with its input.",
         CONN_NOTE + " Trusted additionally: TotalAlloc deltas, bounded waits (10 s) used only to detect a hang.",
         CONN_TECH + "; permissive trace spec (Trace_Robust) for unclassifiable input", "4 C04"),
})
NOT_YET = "machinery for this property is not built yet in this revision (planned, see DESIGN.md section 4)"

def main():
    hooks_commits = []
    try:
        out = subprocess.run(["git", "-C", "/repo", "log", "--format=%H %s"], capture_output=True, text=True).stdout
        hooks_commits = [l.split()[0] for l in out.splitlines() if " verif:" in l or "verif hook" in l]
    except Exception:
        pass
    m = {
     "version": 1,
     "setup_cmd": "sh tools/setup.sh",
     "hooks": {"guard": "verif (Go build tag)", "enable": "go build -tags verif (the harness module replaces the library with /repo)",
               "baseline_off_cmd": "cd /repo && GOFLAGS=-mod=mod GOPROXY=off GOSUMDB=off GOTOOLCHAIN=local go test -json -vet=off -count=1 -timeout 25m ./...",
               "source_commits": hooks_commits, "add_only": True},
     "engines": [{"name": "pgverif", "path": "tools/check.py", "serves_properties": sorted(CLAIMED),
                  "kind_free_text": "TLA+ specification (spec/*.tla) checked by TLC; conformance by TLC trace validation of "
                                    "executions of the real code driven by TLC-generated behaviours (Go harness in harness/)"}],
     "checks": [], "not_applicable": [],
     "notes": "All verdicts come from executions of the real code rebuilt from /repo's working tree; see DESIGN.md.",
    }
    for pid in ALL:
        if pid in CLAIMED:
            text, note, tech, ref = CLAIMED[pid]
            m["checks"].append({"property_id": pid, "quick_cmd": "./check %s quick" % pid,
                                "thorough_cmd": "./check %s thorough" % pid,
                                "evidence_file": "/verif/evidence/%s.json" % pid,
                                "replay_cmd_template": "./check %s --replay {path}" % pid, "engine": "pgverif",
                                "level_claimed": {"category": "model_checking", "text": text, "design_ref": ref},
                                "level_note": note, "technique": tech})
        else:
            m["not_applicable"].append({"property_id": pid, "reason": NOT_YET})
    json.dump(m, open(os.path.join(VERIF, "MANIFEST.json"), "w"), indent=1)
    print("MANIFEST.json: %d claimed, %d not applicable" % (len(m["checks"]), len(m["not_applicable"])))

if __name__ == "__main__":
    main()
