#!/usr/bin/env python3
"""Orchestrator: build harness from /repo -> TLC model checking of the bounded
model -> export behaviours -> drive the real code and record -> TLC trace
validation -> evidence.

usage: check.py <ID> quick|thorough
       check.py <ID> --replay <dir>

exit 0: property held on everything explored (KNOWN-FINDING lines possible)
exit 1: VIOLATION property=<id> replay=<path>  (reproduced on the real code)
exit 2: machinery problem (spec error, build failure, timeout, unreproduced rejection)
"""
import json, os, re, shutil, subprocess, sys, tempfile, time, glob

VERIF = os.path.dirname(os.path.dirname(os.path.abspath(__file__)))
SPEC = os.path.join(VERIF, "spec")
HARNESS = os.path.join(VERIF, "harness")
REPO = os.environ.get("VERIF_REPO", "/repo")
sys.path.insert(0, os.path.join(VERIF, "tools"))

GOENV = dict(os.environ, GOFLAGS="-mod=mod", GOPROXY="off", GOSUMDB="off", GOTOOLCHAIN="local")
DFS = "-Dtlc2.tool.queue.IStateQueue=StateDeque"


class Machinery(Exception):
    """Something in the machinery (not the code under test) went wrong: exit 2."""


def log(*a):
    print(*a, flush=True)


def sh(cmd, cwd=None, env=None, timeout=None, check=True):
    p = subprocess.run(cmd, cwd=cwd, env=env, timeout=timeout, stdout=subprocess.PIPE,
                       stderr=subprocess.STDOUT, text=True)
    if check and p.returncode != 0:
        raise Machinery("command failed (%d): %s\n%s" % (p.returncode, " ".join(cmd), p.stdout[-4000:]))
    return p


class Ctx:
    def __init__(self, pid, tier, seed):
        self.pid, self.tier, self.seed = pid, tier, seed
        self.t0 = time.time()
        self.scratch = tempfile.mkdtemp(prefix="pgverif-%s-" % pid)
        self.bin = os.path.join(self.scratch, "pgverif")
        self.cov = {"states": 0, "transitions": 0, "traces_validated_against_impl": 0, "samples": [],
                    "models": [], "events_validated": 0, "behaviours_from_tlc": 0, "behaviours_random": 0,
                    "trusted_base": []}
        self.violations = []   # (what, replay_dir)
        self.known = []
        self.n = 0

    def cleanup(self):
        shutil.rmtree(self.scratch, ignore_errors=True)

    def dir(self, name):
        d = os.path.join(self.scratch, name)
        os.makedirs(d, exist_ok=True)
        return d


# ---------------------------------------------------------------- build

def build_harness(cx, race=False):
    cmd = ["go", "build", "-tags", "verif", "-o", cx.bin]
    if REPO != "/repo":
        # a scratch worktree of the library (used when testing seeded changes): same harness, other replace target
        mod = open(os.path.join(HARNESS, "go.mod")).read().replace("=> /repo", "=> " + REPO)
        mf = os.path.join(cx.scratch, "go.mod")
        open(mf, "w").write(mod)
        shutil.copy(os.path.join(REPO, "go.sum"), os.path.join(cx.scratch, "go.sum"))
        cmd += ["-modfile", mf]
    else:
        shutil.copy(os.path.join(REPO, "go.sum"), os.path.join(HARNESS, "go.sum"))
    if race:
        cmd.insert(2, "-race")
    if os.environ.get("VERIF_COVER"):
        # diagnostic: statement coverage of the library under the drivers (GOCOVERDIR must be set by the caller)
        cmd[2:2] = ["-cover", "-coverpkg=verif/harness/...,github.com/jeroenrinzema/psql-wire/..."]
    cmd.append("./cmd/pgverif")
    t = time.time()
    p = sh(cmd, cwd=HARNESS, env=GOENV, timeout=900, check=False)
    if p.returncode != 0:
        raise Machinery("harness build failed:\n" + p.stdout[-4000:])
    log("[build] harness built from %s in %.1fs%s" % (REPO, time.time() - t, " (-race)" if race else ""))


# ---------------------------------------------------------------- TLC

def spec_dir(cx, name):
    d = cx.dir(name)
    for f in glob.glob(os.path.join(SPEC, "*.tla")) + glob.glob(os.path.join(SPEC, "*.cfg")):
        shutil.copy(f, d)
    return d


def patch_cfg(path, consts):
    """Override `NAME = value` lines of a cfg."""
    if not consts:
        return
    s = open(path).read()
    for k, v in consts.items():
        s, n = re.subn(r"(?m)^(\s*%s\s*(?:=|<-)\s*).*$" % re.escape(k), lambda m: m.group(1) + str(v), s)
        if n == 0:
            raise Machinery("cfg %s has no constant %s" % (path, k))
    open(path, "w").write(s)


def run_tlc(cx, d, module, cfg, workers=1, timeout=1800, dfs=False, extra=None, heap=None):
    env = dict(os.environ)
    # TLC unpacks its standard modules into java.io.tmpdir: a private one per run, so that concurrent
    # checks (and their clean-up) cannot disturb each other
    jtmp = os.path.join(d, "jtmp")
    os.makedirs(jtmp, exist_ok=True)
    opts = ["-Djava.io.tmpdir=" + jtmp]
    if dfs:
        opts.append(DFS)
    if heap:
        opts.append("-Xmx%s" % heap)
    if opts:
        env["JAVA_TOOL_OPTIONS"] = " ".join(opts)
    cmd = ["timeout", str(timeout), "tlc", "-noGenerateSpecTE", "-workers", str(workers),
           "-metadir", os.path.join(d, "md-%s-%d" % (module, int(time.time() * 1000) % 100000)),
           "-config", cfg] + (extra or []) + [module + ".tla"]
    p = subprocess.run(cmd, cwd=d, env=env, stdout=subprocess.PIPE, stderr=subprocess.STDOUT, text=True)
    out = p.stdout
    r = {"rc": p.returncode, "out": out, "generated": 0, "distinct": 0}
    m = re.search(r"(\d+) states generated, (\d+) distinct states found", out)
    if m:
        r["generated"], r["distinct"] = int(m.group(1)), int(m.group(2))
    if p.returncode == 124:
        raise Machinery("TLC timed out on %s/%s" % (module, cfg))
    return r


def model_check(cx, module, cfg=None, consts=None, workers=1, timeout=1800, expect_violation=None, export=True):
    """Model-check a bounded model. Returns the behaviours file (or None)."""
    cfg = cfg or module + ".cfg"
    d = spec_dir(cx, "mc-" + module + "-" + cfg.replace(".cfg", ""))
    patch_cfg(os.path.join(d, cfg), consts)
    t = time.time()
    r = run_tlc(cx, d, module, cfg, workers=workers, timeout=timeout)
    ok = "Model checking completed. No error has been found." in r["out"]
    if expect_violation:
        if expect_violation not in r["out"] or ok:
            raise Machinery("negative self-test: %s/%s did not produce the expected counterexample (%s)\n%s" %
                            (module, cfg, expect_violation, r["out"][-3000:]))
        log("[mc] %s/%s: expected counterexample found (%s)" % (module, cfg, expect_violation))
        return None
    if not ok:
        raise Machinery("model %s/%s has an error (a spec bug, not a code violation):\n%s" %
                        (module, cfg, tail_of(r["out"])))
    cx.cov["states"] += r["distinct"]
    cx.cov["transitions"] += r["generated"]
    cx.cov["models"].append({"module": module, "cfg": cfg, "consts": consts or {}, "distinct_states": r["distinct"],
                             "transitions": r["generated"], "wall_s": round(time.time() - t, 1)})
    log("[mc] %s/%s %s: %d distinct states, %d transitions, %.1fs" %
        (module, cfg, consts or "", r["distinct"], r["generated"], time.time() - t))
    if not export:
        return None
    files = sorted(glob.glob(os.path.join(d, "beh_*.ndjson")), key=lambda f: int(re.findall(r"beh_(\d+)", f)[0]))
    if not files:
        return None
    outp = os.path.join(cx.scratch, "beh-%s-%s.ndjson" % (module, cfg.replace(".cfg", "")))
    n = 0
    with open(outp, "w") as o:
        for f in files:
            for line in open(f):
                if line.strip():
                    o.write(line)
                    n += 1
    cx.cov["behaviours_from_tlc"] += n
    log("[mc] exported %d behaviours" % n)
    return outp


def _send_key(step):
    if isinstance(step, dict) and "act" in step:
        return "%s/%s" % (step.get("a", step.get("c", "")), step.get("act"))   # a schedule step: actor and action
    m = step.get("m", {}) if isinstance(step, dict) else {}
    if not isinstance(m, dict):
        return "?"
    q = m.get("q") if isinstance(m.get("q"), dict) else {}
    return "%s/%s/%s/%s/%s/%s/%s" % (m.get("t"), m.get("kind", ""), m.get("name", ""), m.get("portal", ""), m.get("stmt", ""),
                                    q.get("id", ""), m.get("rfmt", ""))


def subsample(cx, path, n, must=None):
    """Keep a seeded subset of n behaviours (quick tier: the model is checked exhaustively, the replay through
    the implementation is sampled). The sample is stratified by the last client messages (up to six, Sync aside) of a behaviour
    (type and names): TLC exports one behaviour per transition of the state graph, so a particular short
    history (Bind, Close, Execute of the same name) exists exactly once and must not be left to chance."""
    import random
    ls = read_lines(path)
    if n is None or len(ls) <= n:
        return path
    rnd = random.Random(cx.seed)
    groups = {}
    for i, l in enumerate(ls):
        try:
            steps = json.loads(l).get("steps", [])
            key = "|".join(_send_key(s) for s in steps[-6:] if _send_key(s) != "S//////")
        except Exception:
            key = "?"
        groups.setdefault(key, []).append(i)
    order = sorted(groups)
    rnd.shuffle(order)
    for k in order:
        rnd.shuffle(groups[k])
    keep = []
    if must is not None:
        # behaviours that reach a situation the check is about in particular are replayed first, all of them (up to n)
        wanted = []
        for i, l in enumerate(ls):
            try:
                if must(json.loads(l).get("steps", [])):
                    wanted.append(i)
            except Exception:
                pass
        rnd.shuffle(wanted)
        keep = wanted[:n]
        taken = set(keep)
        for k in order:
            groups[k] = [i for i in groups[k] if i not in taken]
        log("[mc] %d exported behaviours reach the situation asked for; %d of them replayed" % (len(wanted), len(keep)))
    while len(keep) < n:
        progressed = False
        for k in order:
            if groups[k] and len(keep) < n:
                keep.append(groups[k].pop())
                progressed = True
        if not progressed:
            break
    keep.sort()
    with open(path, "w") as f:
        for i in keep:
            f.write(ls[i] + "\n")
    cx.cov.setdefault("replay_sampling", []).append({"file": os.path.basename(path), "exported": len(ls), "replayed": len(keep),
                                                    "strata": len(order)})
    log("[mc] replaying a stratified seeded sample of %d of %d exported behaviours (%d strata)" % (len(keep), len(ls), len(order)))
    return path


def tail_of(out, n=60):
    lines = [l for l in out.splitlines() if not re.match(r"^(Parsing|Semantic|Linting)", l)]
    return "\n".join(lines[-n:])


# ---------------------------------------------------------------- driving the real code

def harness(cx, args, timeout=3600, check=True):
    p = subprocess.run([cx.bin] + args, cwd=cx.scratch, stdout=subprocess.PIPE, stderr=subprocess.STDOUT,
                       text=True, timeout=timeout)
    if check and p.returncode != 0:
        raise Machinery("harness %s failed (%d):\n%s" % (args[:2], p.returncode, p.stdout[-3000:]))
    return p


def gen_random(cx, prop, n, tag="rand", extra=None):
    outp = os.path.join(cx.scratch, "beh-%s-%s.ndjson" % (tag, prop))
    harness(cx, ["gen", "-prop", prop, "-n", str(n), "-seed", str(cx.seed), "-out", outp] + (extra or []))
    cx.cov["behaviours_random"] += n
    return outp


def play(cx, behaviours, tag, cmd="play", extra=None):
    """Drive behaviours through the real server; returns (trace file, crash_info)."""
    trace = os.path.join(cx.scratch, "trace-%s.ndjson" % tag)
    prog = os.path.join(cx.scratch, "progress-%s" % tag)
    t = time.time()
    p = harness(cx, [cmd, "-in", behaviours, "-out", trace, "-seed", str(cx.seed), "-progress", prog] + (extra or []),
                check=False)
    if p.returncode == 3:
        raise Machinery("the harness gave up (not a verdict about the library):\n" + p.stdout[-2000:])
    if p.returncode != 0:
        idx = int(open(prog).read().strip() or -1) if os.path.exists(prog) else -1
        return trace, {"index": idx, "output": p.stdout[-3000:], "rc": p.returncode}
    log("[play] %s: %s (%.1fs)" % (tag, p.stdout.strip().splitlines()[-1] if p.stdout.strip() else "", time.time() - t))
    dead = subprocess.run(["grep", "-c", '"k":"dead"', trace], stdout=subprocess.PIPE, text=True).stdout.strip()
    if dead and int(dead) > 0:
        raise Machinery("dead driver: %s executions of %s did not reach the state under test (preamble failed)" % (dead, tag))
    return trace, None


def read_lines(path):
    with open(path) as f:
        return f.read().splitlines()


def read_idx(trace):
    out = []
    for l in read_lines(trace + ".idx"):
        a, b, c = l.split()
        out.append((int(a), int(b), int(c)))
    return out


def validate(cx, trace, trace_module, trace_cfg=None, timeout=3600):
    """Validate a concatenation of executions (sharded over several TLC
    processes). Returns the rejected executions."""
    from concurrent.futures import ThreadPoolExecutor
    trace_cfg = trace_cfg or trace_module + ".cfg"
    lines = read_lines(trace)
    idx = read_idx(trace)
    if not idx:
        return []
    nshards = max(1, min(8, len(lines) // 40000 + 1, len(idx)))
    per = (len(idx) + nshards - 1) // nshards
    shards = [idx[i:i + per] for i in range(0, len(idx), per)]
    t = time.time()
    with ThreadPoolExecutor(max_workers=len(shards)) as ex:
        results = list(ex.map(lambda a: _validate_shard(cx, os.path.basename(trace), a[0], lines, a[1], trace_module,
                                                         trace_cfg, timeout), enumerate(shards)))
    rejected = []
    n_ok = n_ev = 0
    for rj, ok, ev in results:
        rejected += rj
        n_ok += ok
        n_ev += ev
    cx.cov["traces_validated_against_impl"] += n_ok
    cx.cov["events_validated"] += n_ev
    log("[tv] %s: %d executions / %d events accepted, %d rejected (%d shards, %.1fs)" %
        (os.path.basename(trace), n_ok, n_ev, len(rejected), len(shards), time.time() - t))
    return rejected[:3]


def _validate_shard(cx, name, shard_no, lines, idx, trace_module, trace_cfg, timeout):
    rejected = []
    start = 0
    rounds = 0
    n_ok = n_ev = 0
    while start < len(idx):
        rounds += 1
        first_line = idx[start][0]
        last_line = idx[-1][1]
        d = spec_dir(cx, "tv-%s-%d-%d" % (name, shard_no, rounds))
        with open(os.path.join(d, "trace.ndjson"), "w") as f:
            f.write("\n".join(lines[first_line - 1:last_line]) + "\n")
        r = run_tlc(cx, d, trace_module, trace_cfg, workers=1, dfs=True, timeout=timeout, heap="3g")
        out = r["out"]
        shutil.rmtree(d, ignore_errors=True)
        if "No error has been found" in out and "REJECTED" not in out:
            n_ok += len(idx) - start
            n_ev += last_line - first_line + 1
            break
        m = re.search(r'"REJECTED at line", (\d+), "of", (\d+)', out)
        if not m and rounds <= 2:
            log("[tv] TLC gave no verdict (machine overloaded?), trying once more")
            time.sleep(2)
            continue
        if not m:
            raise Machinery("trace validation failed without a verdict (spec error?):\n" + tail_of(out))
        hw = int(m.group(1)) + first_line - 1   # absolute line number
        k = start
        while k < len(idx) and not (idx[k][0] <= hw <= idx[k][1]):
            k += 1
        if k >= len(idx):
            k = len(idx) - 1   # rejected just past the last line: the last execution owes events
        elif hw == idx[k][0] and k > start:
            k -= 1             # rejected at the next cfg line: the previous execution owes events
        n_ok += k - start
        n_ev += idx[k][0] - first_line
        rejected.append({"first": idx[k][0], "last": idx[k][1], "beh": idx[k][2], "line": hw, "tlc": tail_of(out, 80)})
        log("[tv] %s: execution (behaviour %d) REJECTED at trace line %d" % (name, idx[k][2], hw))
        start = k + 1
        if len(rejected) >= 3:
            break
    return rejected, n_ok, n_ev


def validate_single(cx, trace_lines, trace_module, trace_cfg=None, tag="single"):
    """Validate one execution; returns (accepted, tlc_tail)."""
    trace_cfg = trace_cfg or trace_module + ".cfg"
    d = spec_dir(cx, "tv1-%s-%d" % (tag, int(time.time() * 1000) % 1000000))
    with open(os.path.join(d, "trace.ndjson"), "w") as f:
        f.write("\n".join(trace_lines) + "\n")
    for attempt in range(3):
        r = run_tlc(cx, d, trace_module, trace_cfg, workers=1, dfs=True, timeout=600)
        out = r["out"]
        ok = "No error has been found" in out and "REJECTED" not in out
        # a rejection is only what the acceptance postcondition itself reports
        if ok or re.search(r'"REJECTED at line", (\d+), "of", (\d+)', out):
            break
        time.sleep(2)
    else:
        raise Machinery("trace validation failed without a verdict:\n" + tail_of(out))
    shutil.rmtree(d, ignore_errors=True)
    return ok, tail_of(out, 80)


# ---------------------------------------------------------------- verdicts

def load_known():
    p = os.path.join(VERIF, "known_findings.json")
    if not os.path.exists(p):
        return []
    return [f for f in json.load(open(p)).get("findings", []) if f.get("status") == "known"]


def bundle(cx, what, behaviour_line, trace_lines, tlc_out, extra=None, play_cmd="play", trace_module="Trace_PgConn",
           trace_cfg=None):
    cx.n += 1
    d = os.path.join(VERIF, "replays", cx.pid, "%s-%d-%d" % (cx.tier, cx.seed, cx.n))
    shutil.rmtree(d, ignore_errors=True)
    os.makedirs(d)
    open(os.path.join(d, "behaviour.ndjson"), "w").write(behaviour_line.rstrip("\n") + "\n")
    open(os.path.join(d, "trace.ndjson"), "w").write("\n".join(trace_lines) + "\n")
    open(os.path.join(d, "tlc.out"), "w").write(tlc_out)
    meta = {"property": cx.pid, "what": what, "seed": cx.seed, "tier": cx.tier, "play_cmd": play_cmd,
            "trace_module": trace_module, "trace_cfg": trace_cfg or trace_module + ".cfg"}
    meta.update(extra or {})
    json.dump(meta, open(os.path.join(d, "meta.json"), "w"), indent=1)
    return d


def judge(cx, behaviours, trace, rejected, crash, trace_module, play_cmd="play", play_extra=None, trace_cfg=None,
          known_match=None, seed_base=0):
    """Turn rejections/crashes into reproduced violations."""
    beh_lines = read_lines(behaviours)
    if crash and os.path.exists(trace) and os.path.exists(trace + ".idx"):
        # the executions completed before the process died are on disk: judge them first
        try:
            n_idx = len(read_lines(trace + ".idx"))
            if n_idx > 0:
                lines_ok = read_idx(trace)[-1][1]
                all_lines = read_lines(trace)
                open(trace, "w").write("\n".join(all_lines[:lines_ok]) + "\n")
                early = validate(cx, trace, trace_module, trace_cfg)
                if early:
                    log("[judge] the harness process died later, but executions recorded before that are rejected")
                    judge(cx, behaviours, trace, early, None, trace_module, play_cmd=play_cmd, play_extra=play_extra,
                          trace_cfg=trace_cfg, known_match=known_match, seed_base=seed_base)
                    if cx.violations:
                        return
        except Machinery:
            pass
    if crash:
        i0 = crash["index"]
        if i0 < 0 or i0 >= len(beh_lines):
            raise Machinery("harness died outside a behaviour:\n" + crash["output"])
        # a panicking goroutine takes a moment to kill the process: the driver may already have moved on
        c2 = None
        for i in (i0, i0 - 1, i0 - 2):
            if i < 0:
                continue
            one = os.path.join(cx.scratch, "one-crash.ndjson")
            open(one, "w").write(beh_lines[i] + "\n")
            t2, c2 = play(cx, one, "recrash", cmd=play_cmd, extra=(play_extra or []) + ["-seedindex", str(seed_base + i)])
            if c2:
                break
            # the process survives this behaviour alone (the death may have needed the accumulated load, e.g.
            # memory): what it recorded is judged like any other execution
            tl = read_lines(t2)
            ok, tout = validate_single(cx, tl, trace_module, trace_cfg, tag="recrash%d" % i)
            if not ok:
                what = describe_rejection(tout) + " (the harness process died when this ran after the preceding behaviours)"
                d = bundle(cx, what, beh_lines[i], tl, tout, play_cmd=play_cmd, trace_module=trace_module,
                           trace_cfg=trace_cfg, extra={"seedindex": seed_base + i})
                cx.violations.append((what, d))
                return
        if not c2:
            # the death may need what the process accumulated over the preceding executions (memory, pools):
            # replay the window that led to it
            start = max(0, i0 - 300)
            win = os.path.join(cx.scratch, "win-crash.ndjson")
            open(win, "w").write("\n".join(beh_lines[start:i0 + 1]) + "\n")
            for attempt in range(2):
                t3, c3 = play(cx, win, "recrash-win", cmd=play_cmd, extra=(play_extra or []) + ["-seedindex", str(seed_base + start)])
                if c3:
                    what = "server process crashed after a sequence of executions: " + first_panic_line(c3["output"])
                    d = bundle(cx, what, "\n".join(beh_lines[start:i0 + 1]), [], c3["output"], play_cmd=play_cmd,
                               trace_module=trace_module, trace_cfg=trace_cfg, extra={"seedindex": seed_base + start})
                    cx.violations.append((what, d))
                    return
            raise Machinery("harness crash near behaviour %d did not reproduce:\n%s" % (i0, crash["output"]))
        what = "server process crashed: " + first_panic_line(c2["output"])
        d = bundle(cx, what, beh_lines[i], [], c2["output"], play_cmd=play_cmd, trace_module=trace_module,
                   trace_cfg=trace_cfg, extra={"seedindex": seed_base + i})
        cx.violations.append((what, d))
        return
    unreproduced = []
    for rj in rejected:
        if len(cx.violations) >= 4:
            break
        bl = beh_lines[rj["beh"]]
        one = os.path.join(cx.scratch, "one-%d.ndjson" % rj["beh"])
        open(one, "w").write(bl + "\n")
        # reproduce: replay the same behaviour with the same seed index (several attempts: what the
        # behaviour exposes may depend on the goroutine scheduler)
        ok, tout, tl, c2 = True, "", [], None
        sidx = seed_base + rj["beh"]
        for attempt in range(8):
            t2, c2 = play(cx, one, "re-%d" % rj["beh"], cmd=play_cmd,
                          extra=(play_extra or []) + ["-seedindex", str(seed_base + rj["beh"])])
            if c2:
                break
            tl = read_lines(t2)
            ok, tout = validate_single(cx, tl, trace_module, trace_cfg, tag="re%d" % rj["beh"])
            if not ok:
                break
        if c2:
            what = "server process crashed: " + first_panic_line(c2["output"])
            d = bundle(cx, what, bl, [], c2["output"], play_cmd=play_cmd, trace_module=trace_module, trace_cfg=trace_cfg)
            cx.violations.append((what, d))
            continue
        if ok and rj["beh"] > 0:
            # the rejection may depend on state the process accumulated over the preceding executions
            # (package-level state in the library): replay the window of executions that led to it
            start = max(0, rj["beh"] - 300)
            win = os.path.join(cx.scratch, "win-%d.ndjson" % rj["beh"])
            open(win, "w").write("\n".join(beh_lines[start:rj["beh"] + 1]) + "\n")
            for attempt in range(8):
                t3, c3 = play(cx, win, "rewin-%d" % rj["beh"], cmd=play_cmd,
                              extra=(play_extra or []) + ["-seedindex", str(seed_base + start)])
                if c3:
                    break
                rej3 = validate(cx, t3, trace_module, trace_cfg)
                if rej3:
                    ok = False
                    r0 = rej3[0]
                    w3 = read_lines(t3)
                    tl = w3[r0["first"] - 1:r0["last"]]
                    tout = r0["tlc"]
                    bl = "\n".join(beh_lines[start:start + r0["beh"] + 1])
                    sidx = seed_base + start
                    break
        if ok:
            # keep what was rejected, for diagnosis
            dd = os.path.join(VERIF, "replays", cx.pid, "unreproduced-%s-%d-%d" % (cx.tier, cx.seed, rj["beh"]))
            shutil.rmtree(dd, ignore_errors=True)
            os.makedirs(dd)
            allines = read_lines(trace)
            open(os.path.join(dd, "trace-rejected.ndjson"), "w").write("\n".join(allines[rj["first"] - 1:rj["last"]]) + "\n")
            open(os.path.join(dd, "trace-replayed.ndjson"), "w").write("\n".join(tl) + "\n")
            open(os.path.join(dd, "behaviour.ndjson"), "w").write(bl + "\n")
            open(os.path.join(dd, "tlc.out"), "w").write(rj["tlc"])
            unreproduced.append("rejection of behaviour %d did not reproduce (kept in %s)\n%s" % (rj["beh"], dd, rj["tlc"]))
            continue
        what = describe_rejection(tout)
        if known_match:
            kf = known_match(bl, tl, tout)
            if kf:
                cx.known.append(kf)
                continue
        d = bundle(cx, what, bl, tl, tout, play_cmd=play_cmd, trace_module=trace_module, trace_cfg=trace_cfg,
                   extra={"seedindex": sidx})
        cx.violations.append((what, d))
    if unreproduced and not cx.violations and not cx.known:
        # nothing the real code did could be shown again: no verdict
        raise Machinery(unreproduced[0])


def first_panic_line(out):
    for l in out.splitlines():
        if l.startswith("panic:") or "fatal error" in l:
            return l.strip()
    return (out.strip().splitlines() or ["?"])[-1][:200]


def describe_rejection(tout):
    m = re.search(r'"REJECTED at line", (\d+)', tout)
    ev = re.search(r'<<\s*"event",\s*(.*?)>>\s*\n<<\s*"state"', tout, re.S)
    s = "trace rejected at line %s" % (m.group(1) if m else "?")
    if ev:
        s += ": observed " + re.sub(r"\s+", " ", ev.group(1))[:300]
    return s


# ---------------------------------------------------------------- Apalache (inductive invariant of PgServer)

def apalache(cx, d, cinit, init, inv, length, expect_ok=True, timeout=1800):
    cmd = ["timeout", str(timeout), "apalache-mc", "check", "--cinit=" + cinit, "--next=SNext", "--init=" + init,
           "--inv=" + inv, "--length=%d" % length, "--out-dir=" + os.path.join(d, "apa-out"), "PgServerInd.tla"]
    p = subprocess.run(cmd, cwd=d, stdout=subprocess.PIPE, stderr=subprocess.STDOUT, text=True)
    ok = "The outcome is: NoError" in p.stdout
    bad = "The outcome is: Error" in p.stdout
    if not ok and not bad:
        raise Machinery("apalache gave no outcome for %s/%s:\n%s" % (init, inv, p.stdout[-2000:]))
    if ok != expect_ok:
        raise Machinery("apalache: obligation %s from %s (length %d, %s) %s - the specification or its invariant is wrong, "
                        "not the code:\n%s" % (inv, init, length, cinit, "failed" if expect_ok else "unexpectedly holds",
                                               p.stdout[-2000:]))
    return ok


def pgserver_inductive(cx):
    """The design-level part of C16 for a population larger than TLC's: an inductive invariant of the repaired
    lifecycle (PgServerInd.tla), discharged by Apalache; probes against vacuity; the pinned design as negative control."""
    d = spec_dir(cx, "apalache")
    t = time.time()
    apalache(cx, d, "ConstInit", "SInit", "IndInv", 0)
    apalache(cx, d, "ConstInit", "IndInit", "IndInv", 1)
    apalache(cx, d, "ConstInit", "IndInit", "Safety", 0)
    apalache(cx, d, "ConstInit", "IndInit", "NoStartAfterReturnStep", 1)
    for probe, n in (("ProbeNoReturn", 0), ("ProbeNoHandler", 0), ("ProbeStepFreezes", 1)):
        apalache(cx, d, "ConstInit", "IndInit", probe, n, expect_ok=False)
    apalache(cx, d, "ConstInitPinned", "IndInit", "IndInv", 1, expect_ok=False)
    cx.cov["apalache_obligations"] = {"discharged": ["SInit => IndInv", "IndInv /\\ SNext => IndInv'", "IndInv => NoPanic /\\ CounterOK /\\ Graceful /\\ ServeOK",
                                                     "IndInv /\\ SNext => NoStartAfterReturnStep"],
                                      "population": "4 Close callers, 4 connections", "vacuity_probes_violated": 3,
                                      "negative_control": "pinned design fails the inductive step", "seconds": round(time.time() - t, 1)}
    log("[apalache] inductive invariant of PgServer (repaired): 4 obligations discharged, 3 probes and the pinned control violated as expected (%.0fs)" % (time.time() - t))


# ---------------------------------------------------------------- recorded conversations (PgFlow)

FLOW_ATTR = {"start": "C12", "auth": "C01", "simple": "C05", "ext": "C06", "term": "C19", "other": "C06"}


def flow_attribution(tout):
    """Which property a PgFlow rejection belongs to (from the state at the rejected line)."""
    ev = re.search(r'<<"event",\s*\[k \|-> "(\w+)"', tout)
    st = re.search(r'cur \|-> \[s \|-> "(\w+)"', tout)
    fam = re.search(r'fam \|-> "(\w+)"', tout)
    s = st.group(1) if st else ""
    if s in ("qcopy", "xcopy"):
        return "C13"
    if s == "big":
        return "C10"
    if ev and ev.group(1) == "close":
        return "C19"
    return FLOW_ATTR.get(fam.group(1) if fam else "", "C06")


def flow_record(cx, source, behaviours, tag):
    """Record raw conversations through the library's connection recorder and decode them."""
    rec = cx.dir("rec-%s" % tag)
    for f in glob.glob(os.path.join(rec, "*")):
        os.remove(f)
    env = dict(GOENV)
    env["PSQLWIRE_VERIF_TRACE"] = rec
    if source == "suite":
        # the repository's own tests (pgx, lib/pq, raw sockets); their verdict is not ours (the suite is flaky
        # on its own), only the conversations they produce are judged
        p = sh(["go", "test", "-tags", "verif", "-vet=off", "-count=1", "."], cwd=REPO, env=env, timeout=900, check=False)
        if "build failed" in p.stdout or "cannot find" in p.stdout:
            raise Machinery("the repository's tests do not build with the verif tag:\n" + p.stdout[-2000:])
    else:
        p = subprocess.run([cx.bin, "play", "-in", behaviours, "-out", os.path.join(rec, "ignored.ndjson"), "-seed",
                            str(cx.seed), "-proj", cx.pid], cwd=cx.scratch, env=env, stdout=subprocess.PIPE,
                           stderr=subprocess.STDOUT, text=True, timeout=3600)
        if p.returncode != 0:
            return None, {"index": -1, "output": p.stdout[-3000:], "rc": p.returncode}
    trace = os.path.join(cx.scratch, "flow-%s.ndjson" % tag)
    harness(cx, ["decode", "-dir", rec, "-out", trace])
    return trace, None


def flow_step(cx, behaviours=None, max_play=None):
    """Conversations recorded from the real server - the repository's own test suite and the harness's random
    sessions - judged by the handler-agnostic specification PgFlow. Only rejections that belong to this
    property are reported (the others belong to the checks of the properties they are attributed to)."""
    if max_play is None:
        max_play = int(os.environ.get("VERIF_FLOW_MAX", "4000" if cx.tier == "thorough" else "400"))
    sources = [("suite", None)]
    if behaviours:
        b = os.path.join(cx.scratch, "flow-beh.ndjson")
        open(b, "w").write("\n".join(read_lines(behaviours)[:max_play]) + "\n")
        sources.append(("play", b))
    for source, b in sources:
        trace, crash = flow_record(cx, source, b, source)
        if crash:
            continue   # a crash of the harness is judged by the main procedure on the same behaviours
        n0 = cx.cov["traces_validated_against_impl"]
        rejected = validate(cx, trace, "Trace_PgFlow")
        cx.cov.setdefault("flow_connections", 0)
        cx.cov["flow_connections"] += cx.cov["traces_validated_against_impl"] - n0
        mine = [r for r in rejected if flow_attribution(r["tlc"]) == cx.pid]
        for r in rejected:
            if r not in mine:
                log("[flow] a recorded conversation is rejected, attributed to %s (not judged here)" % flow_attribution(r["tlc"]))
        if not mine:
            continue
        # reproduce: record again
        again = None
        for attempt in range(3):
            t2, c2 = flow_record(cx, source, b, "%s-re%d" % (source, attempt))
            if c2:
                continue
            rj2 = [r for r in validate(cx, t2, "Trace_PgFlow") if flow_attribution(r["tlc"]) == cx.pid]
            if rj2:
                again = (t2, rj2[0])
                break
        if not again:
            raise Machinery("a recorded conversation (%s) was rejected by PgFlow but not again when recorded anew:\n%s"
                            % (source, mine[0]["tlc"]))
        t2, r = again
        lines = read_lines(t2)[r["first"] - 1:r["last"]]
        what = "recorded conversation (%s): %s" % (
            "repository test suite" if source == "suite" else "harness session", describe_rejection(r["tlc"]))
        d = bundle(cx, what, "\n".join(read_lines(b)) if b else "{}", lines, r["tlc"], play_cmd="flow-" + source,
                   trace_module="Trace_PgFlow")
        cx.violations.append((what, d))


# ---------------------------------------------------------------- evidence

def sample_behaviours(cx, path, k=2):
    if not path:
        return
    try:
        ls = read_lines(path)
        step = max(1, len(ls) // k)
        for i in range(0, len(ls), step):
            if len(cx.cov["samples"]) < 6:
                cx.cov["samples"].append(json.loads(ls[i]))
    except Exception:
        pass


def write_evidence(cx, level, rule, assumptions, explanation=None):
    cov = cx.cov
    cov["rule"] = rule
    cov["evaluations"] = cov["traces_validated_against_impl"]
    cov["distinct_nontrivial"] = cov.get("distinct_nontrivial", cov["traces_validated_against_impl"])
    if explanation:
        cov["explanation"] = explanation
    if not cov["samples"]:
        cov["samples"] = ["(no behaviour exported)"]
    ev = {"property_id": cx.pid, "tier": cx.tier, "seed": cx.seed, "level": level, "coverage": cov,
          "assumptions": assumptions, "wall_s": round(time.time() - cx.t0, 1), "violations": len(cx.violations),
          "known_findings_seen": cx.known}
    evdir = os.path.join(VERIF, "evidence") if REPO == "/repo" else os.path.join(cx.scratch, "evidence")
    os.makedirs(evdir, exist_ok=True)   # runs against a scratch worktree (seeded changes) leave the evidence alone
    json.dump(ev, open(os.path.join(evdir, cx.pid + ".json"), "w"), indent=1)


def count_distinct(cx, *behaviour_files):
    seen = set()
    for f in behaviour_files:
        if f and os.path.exists(f):
            for l in read_lines(f):
                seen.add(l)
    cx.cov["distinct_nontrivial"] = len(seen)


def finish(cx, level, rule, assumptions):
    write_evidence(cx, level, rule, assumptions)
    for k in cx.known:
        log("KNOWN-FINDING: property=%s %s" % (cx.pid, k))
    if cx.violations:
        for what, d in cx.violations:
            log("  " + what)
            log("VIOLATION property=%s replay=%s" % (cx.pid, d))
        return 1
    log("[ok] %s %s: held on %d executions validated against the implementation (%.0fs)" %
        (cx.pid, cx.tier, cx.cov["traces_validated_against_impl"], time.time() - cx.t0))
    return 0


# ---------------------------------------------------------------- main

def main():
    import props
    if len(sys.argv) < 3:
        print(__doc__)
        return 2
    pid = sys.argv[1]
    seed = int(os.environ.get("VERIF_SEED", "1") or 1)
    if pid not in props.PROPS:
        print("unknown property", pid)
        return 2
    if sys.argv[2] == "--replay":
        cx = Ctx(pid, "quick", seed)
        try:
            return props.replay(cx, sys.argv[3])
        except Machinery as e:
            log("MACHINERY: " + str(e))
            return 2
        finally:
            cx.cleanup()
    tier = os.environ.get("VERIF_TIER") or sys.argv[2]
    if tier not in ("quick", "thorough"):
        tier = sys.argv[2]
    cx = Ctx(pid, tier, seed)
    try:
        return props.PROPS[pid](cx)
    except Machinery as e:
        log("MACHINERY: " + str(e))
        if cx.violations:
            # an earlier stage of this check already reproduced violations on the real code: report them
            for what, d in cx.violations:
                log("  " + what)
                log("VIOLATION property=%s replay=%s" % (cx.pid, d))
            return 1
        return 2
    except subprocess.TimeoutExpired as e:
        log("MACHINERY: timeout: " + str(e))
        return 2
    finally:
        cx.cleanup()


if __name__ == "__main__":
    import check as _self   # run inside the module `check` so that props.py shares its classes
    sys.exit(_self.main())
