#!/bin/bash
# seedtest.sh <name> <patch.diff> <demo file> <check ids...>
# Confirms a seeded change in a scratch worktree: applies, builds, existing suite passes, the demonstration
# fails with the change and passes without, then runs the given checks against it.
export GOFLAGS=-mod=mod GOPROXY=off GOSUMDB=off GOTOOLCHAIN=local
name=$1; patch=$2; demo=$3; shift 3
wt=/tmp/seedwt-$name
git -C /repo worktree remove --force $wt >/dev/null 2>&1; rm -rf $wt
git -C /repo worktree add -q --detach $wt HEAD || exit 2
cd $wt
if ! git apply $patch 2>/tmp/seed-$name.applyerr; then echo "$name: PATCH DOES NOT APPLY: $(head -2 /tmp/seed-$name.applyerr)"; git -C /repo worktree remove --force $wt; exit 3; fi
if ! go build ./... 2>/tmp/seed-$name.builderr; then echo "$name: DOES NOT BUILD"; git -C /repo worktree remove --force $wt; exit 3; fi
go build -tags verif ./... || { echo "$name: DOES NOT BUILD with verif tag"; }
suite=FAIL
for i in 1 2 3; do if go test -vet=off -count=1 ./... >/tmp/seed-$name.suite 2>&1; then suite=pass; break; fi; grep -q "Log in goroutine after" /tmp/seed-$name.suite || break; done
pkg=$(grep -m1 '^package ' $demo | awk '{print $2}')
case "$pkg" in buffer*) dest=pkg/buffer;; main) dest=zz_demo;; *) dest=.;; esac
mkdir -p $dest; cp $demo $dest/zz_demo_test.go 2>/dev/null
[ "$pkg" = main ] && mv $dest/zz_demo_test.go $dest/main.go
rundemo() { if [ "$pkg" = main ]; then timeout 300 go run ./$dest >/tmp/seed-$name.demo 2>&1; else timeout 300 go test -vet=off -count=1 -run 'Demo|C[0-9][0-9]' ./$dest >/tmp/seed-$name.demo 2>&1; fi; }
rundemo; with=$?
git apply -R $patch
without=1
for i in 1 2 3 4; do rundemo; without=$?; [ $without -eq 0 ] && break; grep -q "Log in goroutine after" /tmp/seed-$name.demo || break; done
git apply $patch
rm -rf $dest/zz_demo_test.go zz_demo
echo "$name: suite=$suite demo_with_change=$([ $with -ne 0 ] && echo FAILS || echo passes) demo_without=$([ $without -eq 0 ] && echo passes || echo FAILS)"
for id in "$@"; do
  r=$(cd /verif && VERIF_REPO=$wt timeout 1200 ./check $id quick 2>&1 | grep -a -E "VIOLATION|\[ok\]|MACHINERY" | head -1 | cut -c1-120)
  echo "   $id: $r"
done
git -C /repo worktree remove --force $wt
