--------------------------- MODULE Trace_PgWriter ---------------------------
(* each recorded operation on the real buffer.Writer, with what was observed *)
(* after it: frame buffer length, result of End, messages newly accepted by  *)
(* the underlying writer (type and declared length as framed by the harness) *)
EXTENDS PgWriter, Json
Trace == ndJsonDeserialize("trace.ndjson")
VARIABLE l
tvars == <<wvars, l>>
Ev == Trace[l]
More == l <= Len(Trace)
TInit == Trace[1].k = "wcfg" /\ WInit(Trace[1].fail) /\ l = 2
TReset == /\ More /\ Ev.k = "wcfg"
          /\ open' = FALSE /\ ftype' = "-" /\ fbody' = 0 /\ flen' = 0 /\ sink' = <<>> /\ failAt' = Ev.fail
          /\ writes' = 0 /\ last' = "-" /\ l' = l + 1
\* observation after the operation
Obs == /\ Ev.flen = flen'
       /\ Ev.sunk = Len(sink')
       /\ (Ev.sunk > 0 => (Ev.lastt = sink'[Len(sink')].t /\ Ev.lastlen = sink'[Len(sink')].len))
       /\ Ev.clean                               \* the sink parses as complete frames, nothing trailing
TOp == /\ More /\ Ev.k = "wop"
       /\ \/ Ev.op = "start" /\ Start(Ev.t)
          \/ Ev.op = "add" /\ Add(Ev.n)
          \/ Ev.op = "end" /\ open /\ End /\ Ev.ret = last'
          \/ Ev.op = "end" /\ ~open /\ UNCHANGED wvars     \* End without Start: not exercised
          \/ Ev.op = "reset" /\ Reset
       /\ Obs
       /\ l' = l + 1
TNext == TReset \/ TOp
TSpec == TInit /\ [][TNext]_tvars
ASSUME TLCSet(1, 0) /\ TLCSet(2, "none")
HighWater == IF l > TLCGet(1) THEN TLCSet(1, l) /\ TLCSet(2, [open |-> open, flen |-> flen, fbody |-> fbody, sunk |-> Len(sink), writes |-> writes]) ELSE TRUE
Accepted ==
    IF TLCGet(1) = Len(Trace) + 1 THEN TRUE
    ELSE /\ PrintT(<<"REJECTED at line", TLCGet(1), "of", Len(Trace)>>)
         /\ PrintT(<<"event", Trace[TLCGet(1)]>>)
         /\ PrintT(<<"state", TLCGet(2)>>)
         /\ FALSE
=============================================================================
