SPECIFICATION TSpec
CONSTRAINT HighWater
POSTCONDITION Accepted
INVARIANT TypeOK
CHECK_DEADLOCK FALSE
