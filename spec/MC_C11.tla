------------------------------- MODULE MC_C11 -------------------------------
(***************************************************************************)
(* Bounded model for the TLS upgrade: server configured without TLS, with  *)
(* an empty certificate list, or with a certificate; the client starts in  *)
(* plaintext, or sends an SSLRequest (alone, or with plaintext stuffed      *)
(* behind it in the same segment, or in a later segment before the          *)
(* handshake), completes the handshake, and then - inside the TLS session   *)
(* or in plaintext after 'N' - sends a startup packet and a small session,  *)
(* or a second SSLRequest, a GSSENCRequest (before or after), or a          *)
(* CancelRequest.                                                           *)
(***************************************************************************)
EXTENDS PgConn, Export

VARIABLES hist
mcvars == <<vars, hist>>

Cfgs == {[auth |-> "none", tls |-> t, params |-> <<>>, version |-> "", mw |-> <<"ok">>, term |-> "ok", limit |-> 8192] :
            t \in {"nil", "empty", "cert"}}

Done == [op |-> "complete", tag |-> "OK"]
RetNil == [op |-> "ret", r |-> "nil"]
V == [c |-> "v", val |-> "s:x"]
Q1 == [id |-> 1, parse |-> "ok", stmts |-> <<[id |-> 1, cols |-> <<[name |-> "c", oid |-> 25]>>, oids |-> <<>>,
                                              prog |-> <<[op |-> "row", cells |-> <<V>>], Done, RetNil>>]>>]
StartupMsg == [t |-> "Startup", term |-> TRUE, kvs |-> <<[k |-> "user", v |-> "u"]>>]
Quiet == inq = <<>> /\ ~ENABLED ServerStep

MCInit == (\E c \in Cfgs : InitWith(c)) /\ hist = <<>>
Push(m) == ClientSend(m) /\ hist' = Append(hist, [k |-> "send", m |-> m])
NSent(t) == Len(SelectSeq(hist, LAMBDA e : e.k = "send" /\ e.m.t = t))

MCSend ==
    /\ Quiet /\ phase # "closed" /\ Len(hist) < 7
    /\ \/ /\ phase = "startup" /\ ssl \in {"none", "refused", "tls"} /\ NSent("SSLRequest") < 2
          /\ \E st \in (IF cfg.tls = "cert" /\ ssl = "none" THEN BOOLEAN ELSE {FALSE}) : Push([t |-> "SSLRequest", stuffed |-> st])
       \/ /\ phase = "startup" /\ ssl \in {"none", "refused", "tls"} /\ NSent("GSSENC") = 0 /\ Push([t |-> "GSSENC"])
       \/ /\ phase = "startup" /\ ssl = "tlsp" /\ NSent("Stuffed") = 0 /\ Push([t |-> "Stuffed"])
       \/ /\ phase = "startup" /\ ssl # "tlsp" /\ Push(StartupMsg)
       \/ /\ phase = "startup" /\ ssl # "tlsp" /\ Push([t |-> "Cancel"])
       \/ /\ phase = "ready" /\ NSent("Q") = 0 /\ Push([t |-> "Q", q |-> Q1])
       \/ /\ phase = "ready" /\ Push([t |-> "X"])

MCTls ==
    /\ Quiet /\ TLSDone
    /\ hist' = Append(hist, [k |-> "tls"])

MCServer == ServerStep /\ UNCHANGED hist
MCNext == MCSend \/ MCTls \/ MCServer
MCSpec == MCInit /\ [][MCNext]_mcvars
View == vars
Cover == (hist' # hist) => ExportRecord([cfg |-> cfg, steps |-> hist'])

---------------------------------------------------------------------------
(* C11 on the model.                                                       *)

\* 'S' only when certificates are configured, and then to the first request;
\* 'N' always without certificates
ReplyMatchesConfig ==
    \A i \in DOMAIN emit :
        (emit[i].k = "recv" /\ emit[i].m.t = "ssl") =>
            /\ (emit[i].m.b = "S" => cfg.tls = "cert" /\ ssl = "tlsp")
            /\ (cfg.tls # "cert" => emit[i].m.b = "N")

\* nothing is dispatched between 'S' and the end of the handshake: no protocol
\* message and no callback while the handshake is pending
NothingWhilePending ==
    [][ssl = "tlsp" /\ ssl' = "tlsp" => \A i \in DOMAIN emit' : emit'[i].k = "close"]_mcvars

\* plaintext stuffed ahead of the handshake never starts a session by itself
StuffingNeverDispatched ==
    [][(inq # <<>> /\ Head(inq).t = "Stuffed" /\ inq' = Tail(inq)) => (phase' \in {"startup", "closed"} /\ cparams' = cparams)]_mcvars

=============================================================================
