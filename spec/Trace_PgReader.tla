--------------------------- MODULE Trace_PgReader ---------------------------
(***************************************************************************)
(* Trace validation of the real buffer.Reader driven through its public    *)
(* API: after every ReadTypedMsg / Slurp the harness logs len(Msg),         *)
(* cap(Msg), whether the window lies in a fresh allocation, and whether     *)
(* every body handed out earlier still has its exact content; for accessor  *)
(* runs it logs every call's outcome.  Slurp is one call of the code and     *)
(* several (silent) chunk steps of the specification.                        *)
(***************************************************************************)
EXTENDS PgReader, Json

Trace == ndJsonDeserialize("trace.ndjson")

VARIABLES l, rem, slurping, body, pos, failed
tvars == <<rvars, l, rem, slurping, body, pos, failed>>

Ev == Trace[l]
More == l <= Len(Trace)

TInit == RInit(4096, 1) /\ l = 1 /\ rem = 0 /\ slurping = FALSE /\ body = <<>> /\ pos = 1 /\ failed = FALSE

TCfg ==
    /\ More /\ Ev.k = "rcfg" /\ ~slurping
    /\ gran' = Ev.gran /\ lim' = Ev.lim /\ alloc' = 0 /\ acap' = 0 /\ aoff' = 0 /\ wlen' = 0 /\ views' = {}
    /\ res' = [op |-> "-"]
    /\ l' = l + 1 /\ UNCHANGED <<rem, slurping, body, pos, failed>>

TRead ==
    /\ More /\ Ev.k = "read" /\ ~slurping
    /\ ReadMsg(Ev.size)
    /\ Ev.ret = res'.ret
    /\ Ev.intact
    /\ (Ev.ret = "ok" => Ev.len = Ev.size /\ Ev.cap = res'.cap /\ Ev.fresh = res'.fresh)
    /\ (Ev.ret = "exceeded" => Ev.reported = Ev.size)
    /\ l' = l + 1 /\ UNCHANGED <<rem, slurping, body, pos, failed>>

TSlurpBegin ==
    /\ More /\ Ev.k = "slurp" /\ ~slurping
    /\ slurping' = TRUE /\ rem' = Ev.n
    /\ res' = [op |-> "slurpbegin", a0 |-> alloc]
    /\ UNCHANGED <<gran, lim, alloc, acap, aoff, wlen, views, l, body, pos, failed>>

TSlurpStep ==
    /\ slurping /\ rem > 0
    /\ LET a0 == IF res.op = "slurpbegin" THEN res.a0 ELSE res.a0 IN
       /\ Place(Min(rem, lim), FALSE)
       /\ res' = [op |-> "slurp", a0 |-> a0]
    /\ rem' = rem - Min(rem, lim)
    /\ UNCHANGED <<gran, lim, l, slurping, body, pos, failed>>

TSlurpEnd ==
    /\ More /\ Ev.k = "slurp" /\ slurping /\ rem = 0
    /\ Ev.intact
    /\ Ev.cap = CapNow /\ Ev.len = wlen
    /\ Ev.fresh = (alloc # res.a0)
    /\ slurping' = FALSE
    /\ l' = l + 1 /\ UNCHANGED <<rvars, rem, body, pos, failed>>

\* accessor runs
TACfg ==
    /\ More /\ Ev.k = "acfg" /\ ~slurping
    /\ body' = Ev.body /\ pos' = 1 /\ failed' = FALSE
    /\ l' = l + 1 /\ UNCHANGED <<rvars, rem, slurping>>

\* a new message with the same body has been read: the cursor starts afresh
TABody ==
    /\ More /\ Ev.k = "abody" /\ Ev.len = Len(body)
    /\ pos' = 1 /\ failed' = FALSE
    /\ l' = l + 1 /\ UNCHANGED <<rvars, rem, slurping, body>>

TAcc ==
    /\ More /\ Ev.k = "acc" /\ ~failed
    /\ LET r == Access(body, pos, Ev.op) IN
       /\ Ev.ok = r.ok
       /\ (r.ok => Ev.n = r.n /\ Ev.exact)
       /\ pos' = r.pos /\ failed' = ~r.ok
    /\ l' = l + 1 /\ UNCHANGED <<rvars, rem, slurping, body>>

TNext == TCfg \/ TRead \/ TSlurpBegin \/ TSlurpStep \/ TSlurpEnd \/ TACfg \/ TABody \/ TAcc
TSpec == TInit /\ [][TNext]_tvars

ASSUME TLCSet(1, 0) /\ TLCSet(2, "none")
HighWater == IF l > TLCGet(1) THEN TLCSet(1, l) /\ TLCSet(2, [alloc |-> alloc, acap |-> acap, aoff |-> aoff, wlen |-> wlen, lim |-> lim, pos |-> pos, body |-> body]) ELSE TRUE
Accepted ==
    IF TLCGet(1) = Len(Trace) + 1 THEN TRUE
    ELSE /\ PrintT(<<"REJECTED at line", TLCGet(1), "of", Len(Trace)>>)
         /\ PrintT(<<"event", Trace[TLCGet(1)]>>)
         /\ PrintT(<<"state", TLCGet(2)>>)
         /\ FALSE
=============================================================================
