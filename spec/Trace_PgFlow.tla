---------------------------- MODULE Trace_PgFlow ----------------------------
(***************************************************************************)
(* Validation of recorded conversations (connection recorder hook          *)
(* verifConn, decoded by `pgverif decode') against PgFlow.  The trace is   *)
(* the concatenation of many connections; a "conn" event starts the next.  *)
(* Consuming a queued frontend message and the silent moves of the         *)
(* response automaton are unlogged: TLC searches for them (depth-first).   *)
(***************************************************************************)
EXTENDS PgFlow, Json
Trace == ndJsonDeserialize("trace.ndjson")
VARIABLE l
tvars == <<fvars, l>>
Ev == Trace[l]
More == l <= Len(Trace)

TInit == FInit /\ l = 1

TConn == /\ More /\ Ev.k = "conn"
         /\ cur' = St("startup") /\ inq' = <<>> /\ skip' = FALSE /\ stmts' = {} /\ portals' = {}
         /\ eofseen' = FALSE /\ faulted' = FALSE /\ fam' = "start" /\ l' = l + 1

TSend  == More /\ Ev.k = "send" /\ cur.s # "dead" /\ FSend(Ev.m) /\ l' = l + 1
TRecv  == More /\ Ev.k = "recv" /\ FRecv(Ev.m) /\ l' = l + 1
TEof   == More /\ Ev.k = "eof" /\ FEof /\ l' = l + 1
TFault == More /\ Ev.k = "fault" /\ FFault /\ l' = l + 1
TClose == More /\ Ev.k = "close" /\ FClose /\ l' = l + 1
TRefused == More /\ Ev.k = "refused" /\ FRefused /\ l' = l + 1
\* reads that fail after the server itself closed the connection
TLateEof == More /\ Ev.k \in {"eof", "fault"} /\ cur.s = "dead" /\ UNCHANGED fvars /\ l' = l + 1
TSilent == (Consume \/ Silent) /\ UNCHANGED l

TNext == TConn \/ TSend \/ TRecv \/ TEof \/ TFault \/ TClose \/ TRefused \/ TLateEof \/ TSilent
TSpec == TInit /\ [][TNext]_tvars

ASSUME TLCSet(1, 0) /\ TLCSet(2, "none")
HighWater == IF l > TLCGet(1) THEN TLCSet(1, l) /\ TLCSet(2, [cur |-> cur, inq |-> inq, skip |-> skip, stmts |-> stmts, portals |-> portals, fam |-> fam]) ELSE TRUE
Accepted ==
    IF TLCGet(1) = Len(Trace) + 1 THEN TRUE
    ELSE /\ PrintT(<<"REJECTED at line", TLCGet(1), "of", Len(Trace)>>)
         /\ PrintT(<<"event", Trace[TLCGet(1)]>>)
         /\ PrintT(<<"state", TLCGet(2)>>)
         /\ FALSE
=============================================================================
