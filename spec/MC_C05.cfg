SPECIFICATION MCSpec
CONSTANTS
  MaxSends = 2
  MaxOps = 3
  MaxOpsMulti = 1
VIEW View
INVARIANT TypeOK
INVARIANT CycleShape
INVARIANT WrittenIsDelivered
PROPERTY ClosedSilent
ACTION_CONSTRAINT Cover
POSTCONDITION ExportDone
CHECK_DEADLOCK FALSE
