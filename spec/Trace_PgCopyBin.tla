--------------------------- MODULE Trace_PgCopyBin ---------------------------
(***************************************************************************)
(* Trace validation for the binary COPY row reader: each recorded          *)
(* execution is a scenario (what the client encoded and how it was          *)
(* corrupted; the chunking is deliberately NOT part of it) followed by the  *)
(* rows the library's reader returned and how it ended.  They must be the   *)
(* chunk-independent expectation of PgCopyBin.                              *)
(***************************************************************************)
EXTENDS PgCopyBin, Json

Trace == ndJsonDeserialize("trace.ndjson")

VARIABLES l, exp, fin
tvars == <<rvars, l, exp, fin>>

Ev == Trace[l]
More == l <= Len(Trace)

\* a truncation strictly inside a cell is always an error
EndOf(s) == IF s.corrupt.kind = "trunc" /\ "mid" \in DOMAIN s.corrupt /\ s.corrupt.mid /\ s.corrupt.at < Len(FullStream(s))
            THEN "err" ELSE ExpectedEnd(s)

Idle == /\ sc = 0 /\ chunks = <<>> /\ buf = <<>> /\ pc = "hdr" /\ cur = <<>> /\ k = 0 /\ out = <<>> /\ status = "run"

TInit == Idle /\ l = 1 /\ exp = <<>> /\ fin = "none"

TScn ==
    /\ More /\ Ev.k = "scn" /\ fin = "none"
    /\ exp' = ExpectedRows(Ev.s) /\ fin' = EndOf(Ev.s)
    /\ l' = l + 1 /\ UNCHANGED rvars

FieldMatches(e, o) ==
    /\ e.c = o.c
    /\ (e.c = "v" => e.val = o.val)

TRow ==
    /\ More /\ Ev.k = "row" /\ fin # "none" /\ exp # <<>>
    /\ Len(Ev.fields) = Len(Head(exp))
    /\ \A j \in DOMAIN Ev.fields : FieldMatches(Head(exp)[j], Ev.fields[j])
    /\ exp' = Tail(exp)
    /\ l' = l + 1 /\ UNCHANGED <<rvars, fin>>

\* how the reader says the stream ended; then: the end of the stream is final (a further Read says so
\* again), and the conversation goes on as the handler decides - it completes the COPY, or it returns the
\* reader's error and the COPY fails with exactly one ErrorResponse - with one ReadyForQuery, and the next
\* query is answered
TEnd ==
    /\ More /\ Ev.k = "end" /\ exp = <<>> /\ Ev.ret = fin /\ fin \in {"eof", "err"}
    /\ fin' = IF fin = "eof" THEN "again" ELSE "conv-err"
    /\ l' = l + 1 /\ UNCHANGED <<rvars, exp>>

TAgain ==
    /\ More /\ Ev.k = "again" /\ fin = "again" /\ Ev.ret = "eof"
    /\ fin' = "conv-eof"
    /\ l' = l + 1 /\ UNCHANGED <<rvars, exp>>

TConv ==
    /\ More /\ Ev.k = "conv" /\ fin \in {"conv-eof", "conv-err"}
    /\ Ev.kinds = IF fin = "conv-err" /\ Ev.mode = "ret" THEN <<"E", "Z", "C", "Z">> ELSE <<"C", "Z", "C", "Z">>
    /\ fin' = "none"
    /\ l' = l + 1 /\ UNCHANGED <<rvars, exp>>

TNext == TScn \/ TRow \/ TEnd \/ TAgain \/ TConv
TSpec == TInit /\ [][TNext]_tvars

ASSUME TLCSet(1, 0) /\ TLCSet(2, "none")
HighWater == IF l > TLCGet(1) THEN TLCSet(1, l) /\ TLCSet(2, [exp |-> exp, fin |-> fin]) ELSE TRUE
Accepted ==
    IF TLCGet(1) = Len(Trace) + 1 THEN TRUE
    ELSE /\ PrintT(<<"REJECTED at line", TLCGet(1), "of", Len(Trace)>>)
         /\ PrintT(<<"event", Trace[TLCGet(1)]>>)
         /\ PrintT(<<"state", TLCGet(2)>>)
         /\ FALSE
=============================================================================
