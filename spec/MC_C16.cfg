SPECIFICATION MCSpec
CONSTANTS
  Closers = {"k1", "k2"}
  Conns = {"c1"}
  Variant = "repaired"
  MaxCmds = 1
VIEW View
INVARIANT STypeOK
INVARIANT NoPanic
INVARIANT CounterOK
INVARIANT Graceful
INVARIANT ServeOK
PROPERTY NoStartAfterReturn
ACTION_CONSTRAINT Cover
POSTCONDITION ExportDone
CHECK_DEADLOCK FALSE
