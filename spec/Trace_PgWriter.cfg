SPECIFICATION TSpec
CONSTRAINT HighWater
POSTCONDITION Accepted
INVARIANT SinkWellFormed
CHECK_DEADLOCK FALSE
