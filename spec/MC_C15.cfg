SPECIFICATION MCSpec
CONSTANTS
  NC = 2
  Plans <- PlansQuick
ACTION_CONSTRAINT Cover
POSTCONDITION ExportDone
CHECK_DEADLOCK FALSE
