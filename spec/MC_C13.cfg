SPECIFICATION MCSpec
CONSTANTS
  MaxCopy = 3
VIEW View
INVARIANT TypeOK
PROPERTY AbortReportedOnce
PROPERTY StrayIgnored
PROPERTY ReadIsSilent
ACTION_CONSTRAINT Cover
POSTCONDITION ExportDone
CHECK_DEADLOCK FALSE
