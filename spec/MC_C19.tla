------------------------------- MODULE MC_C19 -------------------------------
(***************************************************************************)
(* Bounded model for the session lifecycle: 0..MaxMw registered session    *)
(* middlewares, each succeeding or failing; authentication on or off; a     *)
(* terminate hook registered or not; every command history of up to MaxCmds *)
(* commands over simple Query, Parse/Bind/Execute/Sync and Terminate.       *)
(***************************************************************************)
EXTENDS PgConn, Export

CONSTANTS MaxMw, MaxCmds

VARIABLES hist
mcvars == <<vars, hist>>

\* "failnil": the failing handler returns no context along with its error
MwLists == UNION {[1..n -> {"ok", "fail", "failnil"}] : n \in 0..MaxMw}
Cfgs == {[auth |-> a, tls |-> "nil", params |-> <<>>, version |-> "", mw |-> m, term |-> t, limit |-> 8192] :
            a \in {"none", "clear"}, m \in MwLists, t \in {"none", "ok", "fail"}}

Done == [op |-> "complete", tag |-> "OK"]
RetNil == [op |-> "ret", r |-> "nil"]
St(i) == [id |-> i, cols |-> <<>>, oids |-> <<>>, prog |-> <<Done, RetNil>>]
Q(i, n) == [id |-> i, parse |-> "ok", stmts |-> [j \in 1..n |-> St(i + j)]]

StartupMsg == [t |-> "Startup", term |-> TRUE, kvs |-> <<[k |-> "user", v |-> "u"]>>]
Quiet == inq = <<>> /\ ~ENABLED ServerStep
NCmds == Len(SelectSeq(hist, LAMBDA e : e.m.t \in {"Q", "E", "X"} \/ (e.m.t = "P" /\ e.m.name = "f")))

MCInit == (\E c \in Cfgs : InitWith(c)) /\ hist = <<>>

Push(m) == ClientSend(m) /\ hist' = Append(hist, [k |-> "send", m |-> m])

\* a message held back by the client and written together with the next one (one segment)
PushGlued(m) == ClientSend(m) /\ hist' = Append(hist, [k |-> "send", m |-> m, glue |-> TRUE])
Held == hist # <<>> /\ "glue" \in DOMAIN hist[Len(hist)]

\* what follows a Terminate in the same segment: never served
MCSendAfterGlue ==
    /\ Held
    /\ \/ Push([t |-> "X"])
       \/ Push([t |-> "Q", q |-> Q(10 * Len(hist), 1)])
       \/ Push([t |-> "S"])

MCSend ==
    /\ ~Held /\ Quiet /\ phase # "closed"
    /\ \/ phase = "startup" /\ Push(StartupMsg)
       \/ phase = "auth" /\ Push([t |-> "p", pw |-> "good", pwd |-> "good"])
       \/ /\ phase = "ready" /\ NCmds < MaxCmds
          /\ \/ \E n \in {1, 2} : Push([t |-> "Q", q |-> Q(10 * Len(hist), n)])
             \/ Push([t |-> "X"])
             \/ PushGlued([t |-> "X"])
             \/ \* a failing Parse: the session is discarding when the next command arrives
                Push([t |-> "P", name |-> "f", q |-> [id |-> 99, parse |-> "err", perr |-> [base |-> "boom", layers |-> <<>>], stmts |-> <<>>], noids |-> 0])
             \/ /\ "" \notin DOMAIN stmts /\ Push([t |-> "P", name |-> "", q |-> Q(10 * Len(hist), 1), noids |-> 0])
             \/ /\ "" \in DOMAIN stmts /\ "" \notin DOMAIN portals
                /\ Push([t |-> "B", portal |-> "", stmt |-> "", pfmt |-> <<>>, params |-> <<>>, rfmt |-> <<>>])
             \/ /\ "" \in DOMAIN portals /\ Push([t |-> "E", portal |-> "", max |-> 0])
             \/ /\ "" \in DOMAIN portals /\ Push([t |-> "S"])

MCServer == ServerStep /\ UNCHANGED hist
MCNext == MCSend \/ MCSendAfterGlue \/ MCServer
MCSpec == MCInit /\ [][MCNext]_mcvars
View == vars
Cover == (hist' # hist) => ExportRecord([cfg |-> cfg, steps |-> hist'])

---------------------------------------------------------------------------
(* C19 on the model.                                                       *)

Cbs(name) == {emit[i].c : i \in {j \in DOMAIN emit : emit[j].k = "cb" /\ emit[j].c.name = name}}

\* middlewares run in registration order, each seeing exactly its predecessors' markers
MiddlewareOrder ==
    \A c \in Cbs("mw") : c.i = mwi - (IF phase = "closed" THEN 0 ELSE 1) /\ c.mw = [j \in 1..(c.i - 1) |-> j]

\* a failing middleware ends the connection before any command is served
FailingMiddlewareEndsIt ==
    (\E i \in DOMAIN cfg.mw : cfg.mw[i] # "ok") => phase # "ready"

\* every parser / statement callback sees the context built by all middlewares
ContextReachesCallbacks ==
    \A c \in Cbs("parse") \cup Cbs("stmt.start") \cup Cbs("terminate") :
        c.mw = [j \in 1..Len(cfg.mw) |-> j] /\ c.cp = cparams /\ c.live /\ c.prevdone /\ c.addr /\ c.tm

\* Terminate: hook at most once, and the connection is closed by that step
TerminateOnce ==
    [][(Reading("ready") /\ ~skip /\ Head1.t = "X") =>
          (phase' = "closed" /\ Cardinality({i \in DOMAIN emit' : emit'[i].k = "cb"}) = (IF cfg.term = "none" THEN 0 ELSE 1))]_mcvars

\* nothing is served after Terminate: no callback and no reply once the connection is closed
NothingAfterTerminate ==
    [][phase = "closed" => (phase' = "closed" /\ (emit' = emit \/ emit' = <<>>))]_mcvars

=============================================================================
