SPECIFICATION MCSpec
CONSTANTS
  MaxSends = 12
  Names = {"", "a"}
  PNames = {"", "p"}
  Rich = FALSE
VIEW View
INVARIANT TypeOK
INVARIANT HandlerOnlyInSession
INVARIANT ReadyOnlyForSync
INVARIANT OneReadyPerSync
INVARIANT DiscardSilent
PROPERTY FailureOneError
PROPERTY NoCallbackWhileSkipping
ACTION_CONSTRAINT Cover
POSTCONDITION ExportDone
CHECK_DEADLOCK FALSE
