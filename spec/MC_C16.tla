------------------------------- MODULE MC_C16 -------------------------------
(***************************************************************************)
(* Bounded model of the server lifecycle: NClosers concurrent Close calls, *)
(* NConns connections each issuing up to MaxCmds commands (delivered whole  *)
(* or in two parts), all interleavings.  Every explored step is exported as *)
(* a schedule (transition cover) and replayed on real goroutines.           *)
(***************************************************************************)
EXTENDS PgServer, Export

CONSTANTS MaxCmds

VARIABLES hist, ncmd
mcvars == <<svars, hist, ncmd>>

MCInit == SInit /\ hist = <<>> /\ ncmd = [c \in Conns |-> 0]

Act(a, name) == hist' = Append(hist, [a |-> a, act |-> name])

MCNext ==
    \/ \E k \in Closers :
          \/ KStart(k) /\ Act(k, "KStart") /\ UNCHANGED ncmd
          \/ KLock(k) /\ Act(k, "KLock") /\ UNCHANGED ncmd
          \/ KDecide(k) /\ Act(k, "KDecide") /\ UNCHANGED ncmd
          \/ KUnlock(k) /\ Act(k, "KUnlock") /\ UNCHANGED ncmd
          \/ KWaitBegin(k) /\ Act(k, "KWaitBegin") /\ UNCHANGED ncmd
          \/ KWaitEnd(k) /\ Act(k, "KWaitEnd") /\ UNCHANGED ncmd
          \/ KReturn(k) /\ Act(k, "KReturn") /\ UNCHANGED ncmd
    \/ \E c \in Conns :
          \/ ncmd[c] < MaxCmds /\ cpc[c] = "idle" /\ Deliver(c) /\ Act(c, "Deliver") /\ ncmd' = [ncmd EXCEPT ![c] = @ + 1]
          \/ ncmd[c] < MaxCmds /\ DeliverPart(c) /\ Act(c, "DeliverPart") /\ ncmd' = [ncmd EXCEPT ![c] = @ + 1]
          \/ cpc[c] = "midread" /\ Deliver(c) /\ Act(c, "DeliverRest") /\ UNCHANGED ncmd
          \/ CLock(c) /\ Act(c, "CLock") /\ UNCHANGED ncmd
          \/ CDecide(c) /\ Act(c, "CDecide") /\ UNCHANGED ncmd
          \/ CEnter(c) /\ Act(c, "CEnter") /\ UNCHANGED ncmd
          \/ CStart(c) /\ Act(c, "CStart") /\ UNCHANGED ncmd
          \/ CFinish(c) /\ Act(c, "CFinish") /\ UNCHANGED ncmd
          \/ CLoop(c) /\ Act(c, "CLoop") /\ UNCHANGED ncmd
    \/ CloserGo /\ Act("srv", "CloserGo") /\ UNCHANGED ncmd
    \/ ServeReturn /\ Act("srv", "ServeReturn") /\ UNCHANGED ncmd

MCSpec == MCInit /\ [][MCNext]_mcvars

\* The order in which the actors reached their critical sections is part of the view: in the lock-free
\* scheduler model two orders lead to the same state, in the real server (which has the lock) they do not -
\* both must be replayed.
LockOrder == SelectSeq(hist, LAMBDA e : e.act \in {"KLock", "CLock"})
View == <<svars, ncmd, [i \in DOMAIN LockOrder |-> LockOrder[i].a]>>
Cover == ExportRecord([cfg |-> [closers |-> Closers, conns |-> Conns, variant |-> Variant], steps |-> hist'])

=============================================================================
