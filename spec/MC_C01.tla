------------------------------- MODULE MC_C01 -------------------------------
(***************************************************************************)
(* Bounded model for authentication: clear-text strategy configured; every *)
(* validator outcome (accept, reject, fail), every message sent in place   *)
(* of the password message (other types, malformed, oversized, undersized, *)
(* end of input), with and without a refused SSL negotiation before, and    *)
(* every continuation of up to MaxAfter messages the client pushes after it *)
(***************************************************************************)
EXTENDS PgConn, Export

CONSTANTS MaxAfter

VARIABLES hist, accepted
mcvars == <<vars, hist, accepted>>

Cfg0 == [auth |-> "clear", tls |-> "nil", params |-> <<>>, version |-> "", mw |-> <<"ok">>,
         term |-> "ok", limit |-> 8192]

Done == [op |-> "complete", tag |-> "OK"]
RetNil == [op |-> "ret", r |-> "nil"]
Q1 == [id |-> 1, parse |-> "ok", stmts |-> <<[id |-> 1, cols |-> <<>>, oids |-> <<>>, prog |-> <<Done, RetNil>>]>>]

StartupMsg == [t |-> "Startup", term |-> TRUE, kvs |-> <<[k |-> "user", v |-> "u"], [k |-> "database", v |-> "d"]>>]
\* the same packet with surplus bytes behind the terminator that spell an acceptable password
StartupTail == [t |-> "Startup", term |-> TRUE, kvs |-> <<[k |-> "user", v |-> "u"], [k |-> "database", v |-> "d"]>>, tail |-> "good-leftover"]

InPlaceOfPassword ==
    {[t |-> "p", pw |-> o, pwd |-> o] : o \in {"good", "bad", "err", "errc", "gooderr"}}
    \cup {[t |-> "Q", q |-> Q1], [t |-> "X"], [t |-> "S"], [t |-> "U"],
          [t |-> "P", name |-> "", q |-> Q1, noids |-> 0],
          [t |-> "Bad", ty |-> "p", cls |-> "nonul"], [t |-> "Bad", ty |-> "p", cls |-> "short"],
          [t |-> "Big", ty |-> "p", over |-> 1],
          [t |-> "Tiny", ty |-> "p", declared |-> 3]}

After == {[t |-> "Q", q |-> Q1], [t |-> "P", name |-> "", q |-> Q1, noids |-> 0], [t |-> "S"], [t |-> "X"],
          [t |-> "p", pw |-> "good", pwd |-> "good"]}

Quiet == inq = <<>> /\ ~ENABLED ServerStep

\* ... or a strategy of the user's own, accepting or failing
MCInit == (\E a \in {"clear", "custom-ok", "custom-fail"} : InitWith([Cfg0 EXCEPT !.auth = a])) /\ hist = <<>> /\ accepted = FALSE

Push(m, nowait) ==
    /\ ClientSend(m)
    /\ hist' = Append(hist, IF nowait THEN [k |-> "send", m |-> m, nowait |-> TRUE] ELSE [k |-> "send", m |-> m])

\* the client may push its continuation without waiting for the server
MCSend ==
    /\ phase # "closed" /\ ~eof
    /\ \/ /\ Quiet /\ phase = "startup" /\ ssl = "none" /\ hist = <<>> /\ Push([t |-> "SSLRequest"], FALSE)
       \/ /\ Quiet /\ phase = "startup" /\ (Push(StartupMsg, FALSE) \/ Push(StartupTail, FALSE))
       \/ /\ Quiet /\ phase = "auth" /\ \E m \in InPlaceOfPassword, nw \in BOOLEAN : Push(m, nw)
       \/ /\ phase \in {"auth", "ready"} /\ Len(inq) < 2
          /\ Len(SelectSeq(hist, LAMBDA e : e.m.t \notin {"Startup", "SSLRequest"})) \in (IF cfg.auth = "clear" THEN 1 ELSE 0)..MaxAfter
          /\ \E m \in After, nw \in BOOLEAN : Push(m, nw)
    /\ UNCHANGED accepted

MCEof ==
    /\ Quiet /\ phase = "auth" /\ ClientEOF
    /\ hist' = Append(hist, [k |-> "eof"])
    /\ UNCHANGED accepted

IsValidateGood(e) == \/ e.k = "cb" /\ e.c.name = "validate" /\ e.c.ret = "good"
                     \/ e.k = "cb" /\ e.c.name = "auth" /\ cfg.auth = "custom-ok"

MCServer ==
    /\ ServerStep
    /\ accepted' = (accepted \/ \E i \in DOMAIN emit' : IsValidateGood(emit'[i]))
    /\ UNCHANGED hist

MCNext == MCSend \/ MCEof \/ MCServer
MCSpec == MCInit /\ [][MCNext]_mcvars
View == <<vars, accepted>>
Cover == (hist' # hist) => ExportRecord([cfg |-> cfg, steps |-> hist'])

---------------------------------------------------------------------------
(* C01 on the model.                                                       *)

\* the authenticated phases are reached only through an accepting validator
SessionOnlyIfAccepted == phase \in {"postauth", "mw", "ready"} => accepted

\* nothing of the authenticated phase is ever emitted for a connection that
\* was not accepted: no AuthenticationOk, ParameterStatus, ReadyForQuery after
\* the parameters, middleware / parser / statement callbacks
Privileged(e) ==
    \/ e.k = "recv" /\ e.m.t = "R" /\ e.m.code = 0
    \/ e.k = "recvset"
    \/ e.k = "cb" /\ e.c.name \in {"mw", "parse", "stmt.start", "terminate"}

NothingBeforeAcceptance ==
    \A i \in DOMAIN emit : Privileged(emit[i]) => accepted

\* a rejected connection is closed and nothing sent afterwards is processed
RejectedIsFinal ==
    [][phase = "closed" => (phase' = "closed" /\ \A i \in DOMAIN emit' : emit'[i].k # "cb")]_mcvars

=============================================================================
