SPECIFICATION MCSpec
CONSTANTS
  MaxMw = 3
  MaxCmds = 3
VIEW View
INVARIANT TypeOK
INVARIANT MiddlewareOrder
INVARIANT FailingMiddlewareEndsIt
INVARIANT ContextReachesCallbacks
PROPERTY TerminateOnce
ACTION_CONSTRAINT Cover
POSTCONDITION ExportDone
CHECK_DEADLOCK FALSE
PROPERTY NothingAfterTerminate
