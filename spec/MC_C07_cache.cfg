SPECIFICATION MCSpec
CONSTANTS
  MaxSends = 9
  MaxVer = 3
  Names = {"", "a"}
  PNames = {"", "p"}
  CustomCache = TRUE
VIEW View
INVARIANT TypeOK
INVARIANT ExecUsesSnapshot
PROPERTY LatestWins
ACTION_CONSTRAINT Cover
POSTCONDITION ExportDone
CHECK_DEADLOCK FALSE
