SPECIFICATION TSpec
CONSTANTS
  Closers = {"k1", "k2", "k3"}
  Conns = {"c1", "c2", "c3"}
  Variant = "repaired"
CONSTRAINT HighWater
POSTCONDITION Accepted
INVARIANT NoPanic
INVARIANT CounterOK
INVARIANT Graceful
PROPERTY TNoStartAfterReturn
CHECK_DEADLOCK FALSE
