SPECIFICATION LiveSpec
CONSTANTS
  Closers = {"k1", "k2"}
  Conns = {"c1", "c2"}
  Variant = "repaired"
  MaxCmds = 1
INVARIANT NoPanic
INVARIANT Graceful
PROPERTY NoStartAfterReturn
PROPERTY CloseReturns
PROPERTY ServeReturnsNil
CHECK_DEADLOCK FALSE
