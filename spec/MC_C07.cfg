SPECIFICATION MCSpec
CONSTANTS
  MaxSends = 13
  MaxVer = 3
  Names = {"", "a"}
  PNames = {"", "p"}
VIEW View
INVARIANT TypeOK
INVARIANT ExecUsesSnapshot
PROPERTY LatestWins
ACTION_CONSTRAINT Cover
POSTCONDITION ExportDone
CHECK_DEADLOCK FALSE
