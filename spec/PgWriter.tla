------------------------------ MODULE PgWriter ------------------------------
(***************************************************************************)
(* buffer.Writer (pkg/buffer/writer.go): messages are assembled in a frame *)
(* buffer - Start(type), Add*(...), End() - and reach the underlying        *)
(* writer only on End, as one complete message whose length field is        *)
(* back-patched.  The underlying writer may fail; a caller may abandon a    *)
(* frame (return without End).  Whatever happens, what the underlying       *)
(* writer has accepted is a concatenation of complete, correctly sized      *)
(* messages.                                                                *)
(***************************************************************************)
EXTENDS Integers, Sequences, TLC

VARIABLES open,     \* a frame has been started and not ended/reset
          ftype,    \* its type byte
          fbody,    \* bytes added to its body so far
          flen,     \* bytes in the frame buffer (5 header bytes + body, or 0, or stale bytes after Add without Start)
          sink,     \* what the underlying writer accepted: sequence of [t, len, body]
          failAt,   \* the underlying writer fails from its failAt-th Write on (0 = never)
          writes,   \* Write calls made on the underlying writer
          last      \* result of the last End: "nil" | "err" | "-"

wvars == <<open, ftype, fbody, flen, sink, failAt, writes, last>>

AddSizes == [byte |-> 1, int16 |-> 2, int32 |-> 4, nul |-> 1]

WInit(f) == open = FALSE /\ ftype = "-" /\ fbody = 0 /\ flen = 0 /\ sink = <<>> /\ failAt = f /\ writes = 0 /\ last = "-"

\* Start resets the frame and writes the type byte and a length placeholder
Start(t) ==
    /\ open' = TRUE /\ ftype' = t /\ fbody' = 0 /\ flen' = 5 /\ last' = "-"
    /\ UNCHANGED <<sink, failAt, writes>>

\* Add* appends to the frame buffer (also when no frame was started: the bytes
\* are dropped by the next Start / Reset)
Add(n) ==
    /\ fbody' = fbody + n /\ flen' = flen + n /\ last' = "-"
    /\ UNCHANGED <<open, ftype, sink, failAt, writes>>

\* End patches the length and hands the whole message to the underlying
\* writer in ONE Write; afterwards the frame is empty either way
End ==
    /\ open
    /\ writes' = writes + 1
    /\ IF failAt # 0 /\ writes + 1 >= failAt
       THEN sink' = sink /\ last' = "err"
       ELSE sink' = Append(sink, [t |-> ftype, len |-> 4 + fbody, body |-> fbody]) /\ last' = "nil"
    /\ open' = FALSE /\ ftype' = "-" /\ fbody' = 0 /\ flen' = 0
    /\ UNCHANGED failAt

\* Reset (also what an abandoned frame meets at the next Start)
Reset ==
    /\ open' = FALSE /\ ftype' = "-" /\ fbody' = 0 /\ flen' = 0 /\ last' = "-"
    /\ UNCHANGED <<sink, failAt, writes>>

\* every message the underlying writer accepted is complete and correctly sized
SinkWellFormed == \A i \in DOMAIN sink : sink[i].len = 4 + sink[i].body /\ sink[i].t # "-"

=============================================================================
