----------------------------- MODULE MC_C16_live -----------------------------
(***************************************************************************)
(* Liveness of the server lifecycle, checked on the unbounded PgServer     *)
(* actions (no history variables, no state constraint).                    *)
(***************************************************************************)
EXTENDS PgServer

\* liveness (no history variables, no bounds): under fairness of every
\* goroutine - handlers terminate, the mutex is starvation-free (strong
\* fairness of the lock acquisitions) - a Close that was called returns, and
\* Serve returns nil
Fair == /\ \A k \in Closers : /\ SF_svars(KLock(k))
                              /\ WF_svars(KDecide(k) \/ KUnlock(k) \/ KWaitBegin(k) \/ KWaitEnd(k) \/ KReturn(k))
        /\ \A c \in Conns : /\ SF_svars(CLock(c))
                            /\ WF_svars(CDecide(c) \/ CEnter(c) \/ CStart(c) \/ CFinish(c) \/ CLoop(c))
        /\ WF_svars(CloserGo) /\ WF_svars(ServeReturn)
LiveSpec == SInit /\ [][SNext]_svars /\ Fair

CloseReturns == \A k \in Closers : (kpc[k] = "enter") ~> (kpc[k] = "done")
ServeReturnsNil == (\E k \in Closers : kpc[k] = "enter") ~> (served = "nil")

=============================================================================
