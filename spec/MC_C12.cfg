SPECIFICATION MCSpec
CONSTANTS
  MaxKvs = 2
VIEW View
INVARIANT TypeOK
INVARIANT ParamBlock
PROPERTY ConfigImmutable
PROPERTY CancelSilent
ACTION_CONSTRAINT Cover
POSTCONDITION ExportDone
CHECK_DEADLOCK FALSE
