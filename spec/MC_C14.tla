------------------------------- MODULE MC_C14 -------------------------------
(***************************************************************************)
(* Every scenario of the bounded family: tables of up to MaxRows rows over *)
(* NCols columns with fields NULL / empty / value of 1 or 2 cells; file    *)
(* header and trailer present or not; no corruption, every field-count     *)
(* corruption of every row, truncation at every cell position; every set   *)
(* of at most MaxCuts cut positions plus the all-singletons chunking.      *)
(* TLC runs the reassembling reader on each and checks that the result is  *)
(* the chunk-independent expectation; each scenario is exported.           *)
(***************************************************************************)
EXTENDS PgCopyBin, Export

CONSTANTS MaxRows, MaxCuts, MaxExt

Fields == {[c |-> "null"], [c |-> "e"], [c |-> "v", n |-> 1], [c |-> "v", n |-> 2]}
Rows == [1..NCols -> Fields]
Tables == UNION {[1..r -> Rows] : r \in 0..MaxRows}

\* ext: cells of header extension area (only a stream with a header has one)
Base == {b \in [table : Tables, hdr : BOOLEAN, trailer : BOOLEAN, corrupt : {[kind |-> "none"]}, cuts : {{}}, ext : 0..MaxExt] :
            b.ext > 0 => b.hdr}

Corruptions(b) ==
    {[kind |-> "none"]}
    \cup {[kind |-> "cnt", row |-> r, to |-> n] : r \in DOMAIN b.table, n \in ({NCols + 1, NCols - 1, 0, -1} \ {NCols})}
    \cup {[kind |-> "trunc", at |-> p] : p \in 0..(Len(FullStream(b)) - 1)}
    \cup {[kind |-> "len", row |-> r, col |-> j] : r \in DOMAIN b.table, j \in 1..NCols}
    \* a value of the wrong size for a fixed-width column (a column with an empty field is text-like)
    \cup {c \in [kind : {"width"}, row : DOMAIN b.table, col : 1..NCols, how : {"short", "long"}] :
              /\ b.table[c.row][c.col].c = "v" /\ b.table[c.row][c.col].n = 2
              /\ \A x \in DOMAIN b.table : b.table[x][c.col].c # "e"}

SubsetsUpTo(S, n) == {T \in SUBSET S : Cardinality(T) <= n}

CutSets(s) ==
    LET L == Len(Stream(s)) IN
    SubsetsUpTo(1..(L - 1), MaxCuts) \cup {1..(L - 1)}

Scenarios ==
    UNION { UNION { {[b EXCEPT !.corrupt = c, !.cuts = cs] : cs \in CutSets([b EXCEPT !.corrupt = c])} :
                    c \in Corruptions(b) } : b \in Base }

MCInit == \E s \in Scenarios : RInit(s)
MCSpec == MCInit /\ [][RNext]_rvars

\* cuts as a sorted sequence for export
RECURSIVE SortedSeq(_)
SortedSeq(S) == IF S = {} THEN <<>> ELSE LET m == CHOOSE x \in S : \A y \in S : x <= y IN <<m>> \o SortedSeq(S \ {m})

Cover == (status = "run" /\ status' # "run") =>
            ExportRecord([table |-> sc.table, hdr |-> sc.hdr, trailer |-> sc.trailer, corrupt |-> sc.corrupt,
                          cuts |-> SortedSeq(sc.cuts), ncols |-> NCols, ext |-> sc.ext,
                          expect |-> [rows |-> Len(ExpectedRows(sc)), end |-> ExpectedEnd(sc)]])

Terminates == <>(status # "run")
=============================================================================
