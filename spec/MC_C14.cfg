SPECIFICATION MCSpec
CONSTANTS
  NCols = 2
  MaxRows = 1
  MaxCuts = 1
INVARIANT NeverFabricates
INVARIANT ChunkInsensitive
ACTION_CONSTRAINT Cover
POSTCONDITION ExportDone
CHECK_DEADLOCK FALSE
