SPECIFICATION MCSpec
CONSTANTS
  NCols = 2
  MaxRows = 1
  MaxCuts = 1
  MaxExt = 2
INVARIANT NeverFabricates
INVARIANT ChunkInsensitive
ACTION_CONSTRAINT Cover
POSTCONDITION ExportDone
CHECK_DEADLOCK FALSE
