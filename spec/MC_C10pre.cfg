SPECIFICATION MCSpec
CONSTANTS
  MaxSends = 4
  Pre = TRUE
VIEW View
INVARIANT TypeOK
PROPERTY OversizeAnswered
PROPERTY OversizeBeforeSessionCloses
PROPERTY FitsProcessed
ACTION_CONSTRAINT Cover
POSTCONDITION ExportDone
CHECK_DEADLOCK FALSE
