SPECIFICATION MCSpec
CONSTANTS
  MaxSends = 4
  Pre = TRUE
VIEW View
INVARIANT TypeOK
PROPERTY OversizeAnswered
PROPERTY OversizeInCopy
PROPERTY OversizeBeforeSessionCloses
PROPERTY FitsProcessed
ACTION_CONSTRAINT Cover
POSTCONDITION ExportDone
CHECK_DEADLOCK FALSE
