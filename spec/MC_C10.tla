------------------------------- MODULE MC_C10 -------------------------------
(***************************************************************************)
(* Bounded model for the message-size limit L (symbolic here; the harness  *)
(* instantiates it with concrete limits): messages whose body is exactly L, *)
(* L-1 or small are processed normally; messages declaring L+1, 2L, 2L+1,   *)
(* 3L+7 are skipped in full; declared lengths below 4 are rejected; a       *)
(* header declaring 2^31 / 2^32-5 / 2^32-1 followed by a few bytes and end  *)
(* of input; every message type; at the first, a middle and the last        *)
(* position of a session (Pre = FALSE) or during startup / authentication   *)
(* (Pre = TRUE).                                                            *)
(***************************************************************************)
EXTENDS PgConn, Export

CONSTANTS MaxSends, Pre

VARIABLES hist
mcvars == <<vars, hist>>

Cfgs == IF Pre THEN {[auth |-> a, tls |-> "nil", params |-> <<>>, version |-> "", mw |-> <<>>, term |-> "none",
                      limit |-> "sym"] : a \in {"none", "clear"}}
        ELSE {[auth |-> "none", tls |-> "nil", params |-> <<>>, version |-> "", mw |-> <<>>, term |-> "ok",
               limit |-> "sym"]}

Done == [op |-> "complete", tag |-> "OK"]
RetNil == [op |-> "ret", r |-> "nil"]
St(i) == [id |-> i, cols |-> <<>>, oids |-> <<>>, prog |-> <<Done, RetNil>>]
Q(i) == [id |-> i, parse |-> "ok", stmts |-> <<St(i)>>]

Overs == {"1", "L", "Lp1", "2Lp7"}
Types == {"Q", "P", "B", "D", "E", "C", "H", "S", "X", "d", "c", "f", "p", "U"}

Fits == {[t |-> "Q", q |-> Q(1), fit |-> f] : f \in {"L", "Lm1", "small"}}
Bigs == {[t |-> "Big", ty |-> ty, over |-> o] : ty \in Types, o \in Overs}
Tinies == {[t |-> "Tiny", ty |-> ty, declared |-> d] : ty \in {"Q", "P", "S"}, d \in 0..3}
Huges == {[t |-> "Huge", ty |-> ty, declared |-> d, sent |-> 10] : ty \in {"Q", "B"}, d \in {"2^31", "2^32-5", "2^32-1"}}
Others == {[t |-> "S"], [t |-> "P", name |-> "", q |-> Q(2), noids |-> 0], [t |-> "X"]}
\* a statement that starts COPY-in and reads: the oversized message arrives while the handler reads
Read == [op |-> "copyread", onerr |-> "ret"]
QCopy == [id |-> 3, parse |-> "ok", stmts |-> <<[id |-> 3, cols |-> <<[name |-> "c", oid |-> 25]>>, oids |-> <<>>,
                                                 prog |-> <<[op |-> "copyin", fmt |-> 0], Read, Read, Done, RetNil>>]>>]
InCopy == h.on /\ h.copy

StartupMsg == [t |-> "Startup", term |-> TRUE, kvs |-> <<[k |-> "user", v |-> "u"]>>]
Quiet == inq = <<>> /\ ~ENABLED ServerStep

MCInit == (\E c \in Cfgs : InitWith(c)) /\ hist = <<>>
Push(m) == ClientSend(m) /\ hist' = Append(hist, [k |-> "send", m |-> m])

MCSend ==
    /\ Quiet /\ phase \notin {"closed", "slurp"} /\ Len(hist) < MaxSends
    /\ IF Pre
       THEN \/ phase = "startup" /\ Push(StartupMsg)
            \/ phase = "startup" /\ \E o \in Overs : Push([t |-> "Big", ty |-> "Startup", over |-> o])
            \/ phase = "startup" /\ \E d \in 0..3 : Push([t |-> "Tiny", ty |-> "Startup", declared |-> d])
            \/ phase = "auth" /\ \E m \in Bigs \cup Tinies : m.ty \in {"p", "Q"} /\ Push(m)
       ELSE \/ phase = "startup" /\ Push(StartupMsg)
            \/ phase = "ready" /\ ~InCopy /\ \E m \in Fits \cup Bigs \cup Tinies \cup Huges \cup Others \cup {[t |-> "Q", q |-> QCopy]} : Push(m)
            \/ phase = "ready" /\ InCopy /\ \E m \in {b \in Bigs : b.ty \in {"d", "Q", "U"}} \cup {[t |-> "d", dig |-> "s:x", _hex |-> "78"], [t |-> "c"]} : Push(m)

MCEof == /\ Quiet /\ phase = "slurp" /\ ~eof /\ ClientEOF /\ hist' = Append(hist, [k |-> "eof"])

MCServer == ServerStep /\ UNCHANGED hist
MCNext == MCSend \/ MCEof \/ MCServer
MCSpec == MCInit /\ [][MCNext]_mcvars
View == vars
Cover == (hist' # hist) => ExportRecord([cfg |-> cfg, steps |-> hist'])

---------------------------------------------------------------------------
(* C10 on the model.                                                       *)

RecvT(ev, t) == {i \in DOMAIN ev : ev[i].k = "recv" /\ ev[i].m.t = t}

\* an oversized message in a session: exactly one ErrorResponse of class 54000,
\* non-fatal, and the session goes on
\* inside a COPY the oversized message is skipped in full as well; it aborts the COPY, which is
\* reported once, and the next message is processed normally
OversizeInCopy ==
    [][(h.on /\ h.copy /\ inq # <<>> /\ Head1.t = "Big" /\ inq' = Tail(inq)) =>
          (Cardinality(RecvT(emit', "E")) = 1 /\ Cardinality(RecvT(emit', "Z")) = 1 /\ phase' = "ready" /\ ~h'.on)]_mcvars

OversizeAnswered ==
    [][(Reading("ready") /\ ~skip /\ Head1.t = "Big") =>
          /\ Cardinality(RecvT(emit', "E")) = 1
          /\ \A i \in RecvT(emit', "E") : emit'[i].m.code = "54000" /\ ~emit'[i].m.fatal
          /\ phase' = "ready"]_mcvars

\* before the session exists it ends the connection
OversizeBeforeSessionCloses ==
    [][((Reading("startup") \/ Reading("auth")) /\ Head1.t \in {"Big", "Tiny"}) => phase' = "closed"]_mcvars

\* a message that fits is processed normally: its parser is consulted
FitsProcessed ==
    [][(Reading("ready") /\ ~skip /\ Head1.t = "Q") =>
          \E i \in DOMAIN emit' : emit'[i].k = "cb" /\ emit'[i].c.name = "parse"]_mcvars

=============================================================================
