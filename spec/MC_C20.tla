------------------------------- MODULE MC_C20 -------------------------------
(***************************************************************************)
(* ParseParameters transcribed (PgOps.CountParams) and enumerated: every   *)
(* query of up to MaxToks tokens over text, "?" and "$n" with               *)
(* n in {0,1,2,3,5,65535} and n beyond the protocol limit.  For each query  *)
(* the function is called directly, and - when the query is purely          *)
(* $n-style within the limit or purely ?-style - a statement using it is    *)
(* parsed and described through the server.                                 *)
(***************************************************************************)
EXTENDS PgConn, Export

CONSTANTS MaxToks

VARIABLES hist
mcvars == <<vars, hist>>

Cfg0 == [auth |-> "none", tls |-> "nil", params |-> <<>>, version |-> "", mw |-> <<>>,
         term |-> "none", limit |-> 65536]

Toks == {[k |-> "text"], [k |-> "q"]} \cup {[k |-> "d", n |-> n] : n \in {0, 1, 2, 3, 5, 65535, -1}}
TokSeqs == UNION {[1..n -> Toks] : n \in 0..MaxToks}
Defined(t) == ~HasBeyond(t) /\ ~HasMixed(t)

Done == [op |-> "complete", tag |-> "OK"]
RetNil == [op |-> "ret", r |-> "nil"]
Script(t) == [id |-> 1, parse |-> "ok", stmts |-> <<[id |-> 1, cols |-> <<>>, oids |-> <<>>, toks |-> t,
                                                    prog |-> <<Done, RetNil>>]>>]
StartupMsg == [t |-> "Startup", term |-> TRUE, kvs |-> <<[k |-> "user", v |-> "u"]>>]

MCInit == InitWith(Cfg0) /\ hist = <<>>

MCChoose ==
    /\ hist = <<>>
    /\ \E t \in TokSeqs :
          hist' = IF Defined(t)
                  THEN <<[k |-> "parseparams", toks |-> t], [k |-> "send", m |-> StartupMsg],
                         [k |-> "send", m |-> [t |-> "P", name |-> "", q |-> Script(t), noids |-> 0]],
                         [k |-> "send", m |-> [t |-> "D", kind |-> "S", name |-> ""]],
                         [k |-> "send", m |-> [t |-> "S"]]>>
                  ELSE <<[k |-> "parseparams", toks |-> t]>>
    /\ UNCHANGED vars

MCNext == MCChoose
MCSpec == MCInit /\ [][MCNext]_mcvars
Cover == (hist' # hist) => ExportRecord([cfg |-> cfg, steps |-> hist'])

---------------------------------------------------------------------------
(* C20 on the operator.                                                    *)

CountRules ==
    \A t \in TokSeqs :
        Defined(t) =>
            /\ CountParams(t) \in 0..65535
            /\ (DollarIdx(t) = {} => CountParams(t) = QCount(t))
            /\ (DollarIdx(t) # {} => \A i \in DollarIdx(t) : CountParams(t) >= i)
            /\ (DollarIdx(t) # {} => CountParams(t) \in DollarIdx(t) \cup {0})

=============================================================================
