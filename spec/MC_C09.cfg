SPECIFICATION MCSpec
CONSTANTS
  MaxCols = 2
VIEW View
INVARIANT TypeOK
INVARIANT ArityMatches
INVARIANT NullStaysNull
ACTION_CONSTRAINT Cover
POSTCONDITION ExportDone
CHECK_DEADLOCK FALSE
