----------------------------- MODULE PgCopyBin -----------------------------
(***************************************************************************)
(* The binary COPY-in row reader (copy.go BinaryCopyReader).  The client's *)
(* stream - optional file header, rows (field count, per field a length    *)
(* and a value), optional trailer - arrives cut into CopyData chunks at    *)
(* ARBITRARY positions, followed by CopyDone.  The reader reassembles: it  *)
(* asks for the bytes it needs next (`need') and pulls further chunks      *)
(* until it has them or the stream ends.                                   *)
(*                                                                         *)
(* The stream is modelled in cells, fine enough to cut inside every        *)
(* structural unit: signature = 2 cells, flags = 1, extension length = 1,  *)
(* field count = 2, field length = 2, a value of size k = k cells.         *)
(*                                                                         *)
(* A scenario is                                                           *)
(*   table    sequence of rows, a row a sequence of fields                 *)
(*            [c |-> "null"] | [c |-> "e"] (empty) | [c |-> "v", n |-> k]   *)
(*   hdr, trailer   file header / end-of-data trailer present?             *)
(*   corrupt  [kind |-> "none"] | [kind |-> "cnt", row |-> i, to |-> n]     *)
(*            (field count of row i replaced by n)                          *)
(*            | [kind |-> "trunc", at |-> p] (stream ends after p cells)    *)
(*            | [kind |-> "len", row |-> i, col |-> j] (length of that      *)
(*              field replaced by one far beyond what the stream holds)     *)
(*            | [kind |-> "width", row |-> i, col |-> j, how |-> "short" |  *)
(*              "long"] (correctly framed value whose size is not the size  *)
(*              of the column's fixed-width type: it does not decode)       *)
(*   cuts     set of cell positions after which a new chunk starts          *)
(***************************************************************************)
EXTENDS Integers, Sequences, FiniteSets, TLC

CONSTANTS NCols    \* declared columns

Cell(u, v) == [u |-> u, v |-> v]

HugeLen == 1000000

FieldCells(f, r, j) ==
    IF f.c = "null" THEN <<Cell("len1", -1), Cell("len2", 0)>>
    ELSE IF f.c = "e" THEN <<Cell("len1", 0), Cell("len2", 0)>>
    ELSE <<Cell("len1", f.n), Cell("len2", 0)>> \o [i \in 1..f.n |-> Cell("val", <<r, j, i>>)]

RECURSIVE Concat(_)
Concat(ss) == IF ss = <<>> THEN <<>> ELSE Head(ss) \o Concat(Tail(ss))

\* the cells of a field whose length word was replaced by a huge value
HugeField(f, r, j) == <<Cell("len1", HugeLen), Cell("len2", 0)>> \o SubSeq(FieldCells(f, r, j), 3, Len(FieldCells(f, r, j)))

\* the cells of a value that does not decode under the column's type (framing intact)
WrongField(f, r, j) == <<Cell("len1", f.n), Cell("len2", 0)>> \o [i \in 1..f.n |-> Cell("bad", <<r, j, i>>)]

RowCellsC(row, r, cnt, badcol, wrongcol) ==
    <<Cell("cnt1", cnt), Cell("cnt2", 0)>>
    \o Concat([j \in DOMAIN row |-> IF j = badcol THEN HugeField(row[j], r, j)
                                     ELSE IF j = wrongcol THEN WrongField(row[j], r, j)
                                     ELSE FieldCells(row[j], r, j)])
RowCells(row, r, cnt) == RowCellsC(row, r, cnt, 0, 0)

BadCol(sc, r) == IF sc.corrupt.kind = "len" /\ sc.corrupt.row = r THEN sc.corrupt.col ELSE 0
WrongCol(sc, r) == IF sc.corrupt.kind = "width" /\ sc.corrupt.row = r THEN sc.corrupt.col ELSE 0

CountOf(sc, r) == IF sc.corrupt.kind = "cnt" /\ sc.corrupt.row = r THEN sc.corrupt.to ELSE Len(sc.table[r])

\* cells of the header extension area (the header announces its length; the reader skips it)
ExtOf(sc) == IF "ext" \in DOMAIN sc THEN sc.ext ELSE 0

FullStream(sc) ==
    (IF sc.hdr THEN <<Cell("sig1", 0), Cell("sig2", 0), Cell("flags", 0), Cell("ext", ExtOf(sc))>>
                    \o [i \in 1..ExtOf(sc) |-> Cell("xd", 0)]
     ELSE <<>>)
    \o Concat([r \in DOMAIN sc.table |-> RowCellsC(sc.table[r], r, CountOf(sc, r), BadCol(sc, r), WrongCol(sc, r))])
    \o (IF sc.trailer THEN <<Cell("cnt1", -1), Cell("cnt2", 0)>> ELSE <<>>)

Stream(sc) == IF sc.corrupt.kind = "trunc" THEN SubSeq(FullStream(sc), 1, sc.corrupt.at) ELSE FullStream(sc)

\* the chunks of a stream for a set of cut positions
RECURSIVE ChunksFrom(_, _, _)
ChunksFrom(s, from, cuts) ==
    IF cuts = {} THEN <<SubSeq(s, from, Len(s))>>
    ELSE LET c == CHOOSE x \in cuts : \A y \in cuts : x <= y
         IN <<SubSeq(s, from, c)>> \o ChunksFrom(s, c + 1, cuts \ {c})
Chunks(sc) == ChunksFrom(Stream(sc), 1, {c \in sc.cuts : c < Len(Stream(sc))})

(***************************************************************************)
(* What reading must yield, whatever the cuts: the rows before the first   *)
(* bad one, then an error; or all rows, then end-of-stream.                *)
(***************************************************************************)
RowLen(row) == 2 + Len(Concat([j \in DOMAIN row |-> FieldCells(row[j], 0, j)]))
HdrLen(sc) == IF sc.hdr THEN 4 + ExtOf(sc) ELSE 0
\* cells up to and including row r
RECURSIVE UpTo(_, _)
UpTo(sc, r) == IF r = 0 THEN HdrLen(sc) ELSE UpTo(sc, r - 1) + RowLen(sc.table[r])

BadRow(sc) ==
    IF sc.corrupt.kind = "cnt" /\ sc.corrupt.to # -1 THEN sc.corrupt.row
    ELSE IF sc.corrupt.kind = "cnt" THEN 0   \* a count of -1 is the trailer: end of data
    ELSE 0

\* number of complete good rows delivered
GoodRows(sc) ==
    LET n == Len(sc.table) IN
    IF sc.corrupt.kind \in {"cnt", "len", "width"}
    THEN sc.corrupt.row - 1
    ELSE IF sc.corrupt.kind = "trunc"
    THEN Cardinality({r \in 1..n : UpTo(sc, r) <= sc.corrupt.at})
    ELSE n

ExpectedEnd(sc) ==
    LET n == Len(sc.table) IN
    IF sc.corrupt.kind = "cnt"
    THEN IF sc.corrupt.to = -1 THEN "eof" ELSE "err"
    ELSE IF sc.corrupt.kind = "len" THEN "err"      \* the field is truncated: the stream ends long before
    ELSE IF sc.corrupt.kind = "width" THEN "err"    \* the value does not decode
    ELSE IF sc.corrupt.kind = "trunc"
    THEN IF sc.corrupt.at = 0 THEN "eof"
         ELSE IF sc.corrupt.at < HdrLen(sc) THEN "err"                       \* inside the header
         ELSE IF \E r \in 0..n : UpTo(sc, r) = sc.corrupt.at THEN "eof"      \* at a row boundary
         ELSE IF sc.trailer /\ sc.corrupt.at = UpTo(sc, n) + 2 THEN "eof"    \* nothing cut off
         ELSE "err"
    ELSE "eof"

ExpectedRows(sc) == SubSeq(sc.table, 1, GoodRows(sc))

---------------------------------------------------------------------------
(* The reader.                                                             *)

VARIABLES sc,       \* the scenario (fixed)
          chunks,   \* CopyData chunks not yet read (then CopyDone)
          buf,      \* received and not yet consumed cells
          pc,       \* "hdr" | "hdr2" | "hext" | "cnt" | "len" | "val"
          cur,      \* fields of the row in progress
          k,        \* cells of the value being awaited
          out,      \* rows returned so far
          status    \* "run" | "eof" | "err"

rvars == <<sc, chunks, buf, pc, cur, k, out, status>>

RInit(s) ==
    /\ sc = s /\ chunks = Chunks(s) /\ buf = <<>> /\ pc = "hdr" /\ cur = <<>> /\ k = 0
    /\ out = <<>> /\ status = "run"

Needed == CASE pc = "hdr" -> 2 [] pc = "hdr2" -> 4 [] pc = "hext" -> k [] pc = "cnt" -> 2 [] pc = "len" -> 2 [] pc = "val" -> k
Have == Len(buf) >= Needed

\* need(n): pull the next CopyData chunk
Pull ==
    /\ status = "run" /\ ~Have /\ chunks # <<>>
    /\ buf' = buf \o Head(chunks) /\ chunks' = Tail(chunks)
    /\ UNCHANGED <<sc, pc, cur, k, out, status>>

\* need(n): CopyDone arrives instead
StreamEnds ==
    /\ status = "run" /\ ~Have /\ chunks = <<>>
    /\ IF pc = "hdr" /\ buf # <<>>
       THEN \* shorter than a signature: there is no header; go on with rows
            pc' = "cnt" /\ UNCHANGED status
       ELSE /\ status' = IF buf = <<>> /\ pc \in {"hdr", "cnt"} THEN "eof" ELSE "err"
            /\ UNCHANGED pc
    /\ UNCHANGED <<sc, chunks, buf, cur, k, out>>

Hdr ==
    /\ status = "run" /\ pc = "hdr" /\ Have
    /\ pc' = IF buf[1].u = "sig1" /\ buf[2].u = "sig2" THEN "hdr2" ELSE "cnt"
    /\ UNCHANGED <<sc, chunks, buf, cur, k, out, status>>

\* flags (ignored) and the length of the extension area - taken from the fourth cell of the header
Hdr2 ==
    /\ status = "run" /\ pc = "hdr2" /\ Have
    /\ buf' = SubSeq(buf, 5, Len(buf))
    /\ IF buf[4].v = 0 THEN pc' = "cnt" /\ UNCHANGED k ELSE pc' = "hext" /\ k' = buf[4].v
    /\ UNCHANGED <<sc, chunks, cur, out, status>>

\* the extension area is skipped
HExt ==
    /\ status = "run" /\ pc = "hext" /\ Have
    /\ buf' = SubSeq(buf, k + 1, Len(buf)) /\ pc' = "cnt"
    /\ UNCHANGED <<sc, chunks, cur, k, out, status>>

Cnt ==
    /\ status = "run" /\ pc = "cnt" /\ Have
    /\ buf' = SubSeq(buf, 3, Len(buf))
    /\ LET n == buf[1].v IN
       IF buf[1].u # "cnt1" THEN status' = "err" /\ UNCHANGED <<pc, cur, out>>   \* misaligned: cannot be a row
       ELSE IF n = -1 THEN status' = "eof" /\ UNCHANGED <<pc, cur, out>>
       ELSE IF n # NCols THEN status' = "err" /\ UNCHANGED <<pc, cur, out>>
       ELSE IF NCols = 0 THEN out' = Append(out, <<>>) /\ UNCHANGED <<pc, cur, status>>
       ELSE pc' = "len" /\ cur' = <<>> /\ UNCHANGED <<out, status>>
    /\ UNCHANGED <<sc, chunks, k>>

Finish(row) ==
    IF Len(row) = NCols THEN out' = Append(out, row) /\ pc' = "cnt" /\ cur' = <<>>
    ELSE cur' = row /\ pc' = "len" /\ UNCHANGED out

Lenf ==
    /\ status = "run" /\ pc = "len" /\ Have
    /\ buf' = SubSeq(buf, 3, Len(buf))
    /\ LET n == buf[1].v IN
       IF buf[1].u # "len1" THEN status' = "err" /\ UNCHANGED <<pc, cur, out, k>>
       ELSE IF n = -1 THEN Finish(Append(cur, [c |-> "null"])) /\ UNCHANGED k
       ELSE IF n = 0 THEN Finish(Append(cur, [c |-> "e"])) /\ UNCHANGED k
       ELSE k' = n /\ pc' = "val" /\ UNCHANGED <<cur, out>>
    /\ UNCHANGED <<sc, chunks>>
    /\ (buf[1].u = "len1" => UNCHANGED status)

Val ==
    /\ status = "run" /\ pc = "val" /\ Have
    /\ buf' = SubSeq(buf, k + 1, Len(buf))
    /\ IF \E i \in 1..k : buf[i].u = "bad"
       THEN status' = "err" /\ UNCHANGED <<pc, cur, out>>     \* the value does not decode under the column's type
       ELSE Finish(Append(cur, [c |-> "v", n |-> k])) /\ UNCHANGED status
    /\ UNCHANGED <<sc, chunks, k>>

RNext == Pull \/ StreamEnds \/ Hdr \/ Hdr2 \/ HExt \/ Cnt \/ Lenf \/ Val

---------------------------------------------------------------------------
(* C14: rows decode to what was sent, however the stream is chunked; a bad *)
(* field count or a truncated field is an error, never a fabricated row.   *)

Canon(row) == [j \in DOMAIN row |-> IF row[j].c = "v" THEN [c |-> "v", n |-> row[j].n] ELSE [c |-> row[j].c]]

NeverFabricates ==
    /\ Len(out) <= Len(ExpectedRows(sc))
    /\ \A i \in DOMAIN out : out[i] = Canon(sc.table[i])

ChunkInsensitive ==
    status # "run" => /\ out = [i \in DOMAIN ExpectedRows(sc) |-> Canon(ExpectedRows(sc)[i])]
                      /\ status = ExpectedEnd(sc)

=============================================================================
