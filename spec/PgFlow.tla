------------------------------- MODULE PgFlow -------------------------------
(***************************************************************************)
(* The conversation of ONE connection when nothing is known about the      *)
(* callbacks (parser, statement functions, authentication, middleware):    *)
(* what every server built on the library answers, whatever its handlers   *)
(* do.  PgConn describes the same machine with scripted handlers; PgFlow   *)
(* is its projection onto the wire, used to judge conversations recorded   *)
(* from arbitrary clients - the repository's own test suite (pgx, lib/pq,  *)
(* raw sockets) and the harness's own traffic - through the recorder hook  *)
(* verifConn.                                                              *)
(*                                                                         *)
(* The server is an automaton over the backend messages it sends.          *)
(* Frontend messages queue up in `inq' (the server reads ahead); consuming *)
(* the head of the queue is a silent step that sets what may follow.       *)
(*                                                                         *)
(*   cur.s   where the response to the message being processed stands      *)
(*   skip    an extended-protocol message failed: discard until Sync       *)
(*   stmts, portals   names that resolve (ParseComplete / BindComplete     *)
(*           seen, no CloseComplete since)                                 *)
(*                                                                         *)
(* What is decided here, for any handlers:                                 *)
(*   - each frontend message is answered only by its designated replies    *)
(*   - exactly one ReadyForQuery per Query and per Sync, never elsewhere    *)
(*   - after an ErrorResponse in the extended protocol nothing is sent     *)
(*     until Sync                                                           *)
(*   - Bind / Describe / Execute of a name that does not resolve fail      *)
(*   - a blank Query gets EmptyQueryResponse (or, from a server without a  *)
(*     parse function, an ErrorResponse) and ReadyForQuery                  *)
(*   - every DataRow of a statement has the field count of its             *)
(*     RowDescription                                                       *)
(*   - nothing follows Terminate; the server closes only when the          *)
(*     conversation allows it                                               *)
(*   - ParameterStatus only at start-up; never PortalSuspended / Notice    *)
(***************************************************************************)
EXTENDS Integers, Sequences, FiniteSets, TLC

VARIABLES cur, inq, skip, stmts, portals, eofseen, faulted,
          fam    \* what the message being answered belongs to (used to attribute a rejection to a property)

fvars == <<cur, inq, skip, stmts, portals, eofseen, faulted, fam>>

St(s) == [s |-> s]
Rows(s, n) == [s |-> s, n |-> n]       \* n: field count announced by RowDescription, -1 unknown

FInit ==
    /\ cur = St("startup") /\ inq = <<>> /\ skip = FALSE
    /\ stmts = {} /\ portals = {} /\ eofseen = FALSE /\ faulted = FALSE /\ fam = "start"

ExtTypes == {"P", "B", "D", "E", "C", "H"}

---------------------------------------------------------------------------
(* Frontend side                                                           *)

FSend(m) == inq' = Append(inq, m) /\ UNCHANGED <<cur, skip, stmts, portals, eofseen, faulted, fam>>

FEof == eofseen' = TRUE /\ UNCHANGED <<cur, inq, skip, stmts, portals, faulted, fam>>

\* the server is closing (Server.Close has begun): the message it read next is not admitted, gets no reply
\* and changes nothing (C16); the recorder notes the refusal where the library reports it (cmd.refused)
FRefused == cur.s = "idle" /\ inq # <<>> /\ inq' = Tail(inq) /\ UNCHANGED <<cur, skip, stmts, portals, eofseen, faulted, fam>>

\* a write failed: the client is gone; whatever was being sent is cut short
FFault == faulted' = TRUE /\ UNCHANGED <<cur, inq, skip, stmts, portals, eofseen, fam>>

---------------------------------------------------------------------------
(* Consuming the next frontend message (silent)                            *)

Head1 == Head(inq)
Pop == inq' = Tail(inq)
Keep == UNCHANGED <<skip, stmts, portals, eofseen, faulted>>
FamOf(m) == IF m.t = "Q" THEN "simple" ELSE IF m.t \in ExtTypes \cup {"S"} THEN "ext"
            ELSE IF m.t = "X" THEN "term" ELSE "other"

\* start-up packets
ConsumeStartup ==
    /\ cur.s = "startup" /\ inq # <<>> /\ Pop /\ Keep /\ fam' = "start"
    /\ IF Head1.t # "Startup" THEN cur' = St("closingE")
       ELSE CASE Head1.proto = "3.0" -> cur' = St("auth")
              [] Head1.proto \in {"ssl", "gss"} -> cur' = St("sslans")
              [] Head1.proto = "cancel" -> cur' = St("closing")
              [] OTHER -> cur' = St("closingE")

\* the password (or anything else) while authentication waits for it
ConsumeAuth ==
    /\ cur.s = "authwait" /\ inq # <<>> /\ Pop /\ Keep /\ fam' = "auth"
    /\ cur' = IF Head1.t = "p" THEN St("auth2") ELSE St("closingE")

\* discarding: everything but Sync and Terminate is dropped without reply
\* (a Sync or Terminate that carries a body may be over the size limit, in
\* which case it is skipped like everything else: "fat")
ConsumeSkip ==
    /\ cur.s = "idle" /\ skip /\ inq # <<>> /\ Pop /\ fam' = (IF Head1.t = "X" THEN "term" ELSE "ext")
    /\ \/ /\ "fat" \in DOMAIN Head1
          /\ UNCHANGED <<cur, skip>>
       \/ IF Head1.t = "S" THEN cur' = St("zdue") /\ skip' = FALSE
          ELSE IF Head1.t = "X" THEN cur' = St("closing") /\ UNCHANGED skip
          ELSE UNCHANGED <<cur, skip>>
    /\ UNCHANGED <<stmts, portals, eofseen, faulted>>

ConsumeReady ==
    /\ cur.s = "idle" /\ ~skip /\ inq # <<>> /\ Pop /\ Keep /\ fam' = FamOf(Head1)
    /\ LET m == Head1 IN
       \/ \* the message is over the size limit: skipped, answered with 54000
          cur' = [s |-> "big", ty |-> m.t]
       \/ CASE m.t = "Q" -> cur' = IF m.blank THEN St("blank") ELSE St("q")
            [] m.t = "P" -> cur' = [s |-> "one", want |-> "1", name |-> m.name]
            [] m.t = "B" -> cur' = IF m.stmt \in stmts THEN [s |-> "one", want |-> "2", name |-> m.portal]
                                   ELSE St("mustfail")
            [] m.t = "D" -> cur' = IF m.kind = "S" /\ m.name \in stmts THEN St("descS")
                                   ELSE IF m.kind = "P" /\ m.name \in portals THEN St("descP")
                                   ELSE St("mustfail")
            [] m.t = "E" -> cur' = IF m.portal \in portals THEN Rows("x", -1) ELSE St("mustfail")
            [] m.t = "C" -> cur' = IF m.kind \in {"S", "P"} THEN [s |-> "one", want |-> "3", name |-> m.name, kind |-> m.kind]
                                   ELSE St("mustfail")
            [] m.t = "H" -> cur' = St("idle")
            [] m.t = "S" -> cur' = St("zdue")
            [] m.t = "X" -> cur' = St("closing")
            [] m.t \in {"d", "c", "f"} -> cur' = St("idle")          \* stray COPY messages are ignored
            [] m.t \in {"U", "p"} -> cur' = St("unk")
            [] m.t \in {"Bad", "Startup"} -> cur' = St("mal")
            [] OTHER -> cur' = St("mal")

\* COPY-in: the statement function reads (or not) what the client sends
ConsumeCopy ==
    /\ cur.s \in {"qcopy", "xcopy"} /\ inq # <<>> /\ Pop /\ Keep /\ UNCHANGED <<cur, fam>>

Consume == ConsumeStartup \/ ConsumeAuth \/ ConsumeSkip \/ ConsumeReady \/ ConsumeCopy

\* silent moves of the response automaton
Silent ==
    /\ UNCHANGED <<inq, stmts, portals, eofseen, faulted, fam>>
    /\ \/ cur.s = "x" /\ cur' = St("idle") /\ UNCHANGED skip          \* the statement returned without completing
       \/ cur.s = "qrows" /\ cur' = St("q") /\ UNCHANGED skip
       \/ cur.s = "xcopy" /\ cur' = St("idle") /\ UNCHANGED skip
       \/ cur.s = "xdone" /\ cur' = St("idle") /\ UNCHANGED skip
       \/ cur.s = "unk1" /\ cur' = St("idle") /\ skip' = TRUE         \* E1: error, then discarding
       \/ cur.s = "mal1" /\ cur' = St("idle") /\ skip' = TRUE
       \/ cur.s = "mal2" /\ cur' = St("idle") /\ UNCHANGED skip

---------------------------------------------------------------------------
(* Backend messages                                                        *)

Go(s) == cur' = s /\ UNCHANGED <<skip, stmts, portals>>
Fail == cur' = St("idle") /\ skip' = TRUE /\ UNCHANGED <<stmts, portals>>   \* extended protocol: error, discard

FRecv(e) ==
    /\ UNCHANGED <<inq, eofseen, faulted, fam>>
    /\ CASE cur.s = "sslans" ->
              \/ e.t = "sslN" /\ Go(St("startup"))
              \/ e.t = "sslS" /\ Go(St("opaque"))
         [] cur.s = "auth" ->
              \/ e.t = "R" /\ e.code = 3 /\ Go(St("authwait"))
              \/ e.t = "R" /\ e.code = 0 /\ Go(St("params"))
              \/ e.t = "E" /\ Go(St("closingZ"))
         [] cur.s = "auth2" ->
              \/ e.t = "R" /\ e.code = 0 /\ Go(St("params"))
              \/ e.t = "E" /\ Go(St("closingZ"))
         [] cur.s = "params" ->
              \/ e.t \in {"S", "K"} /\ Go(cur)
              \/ e.t = "Z" /\ Go(St("idle"))
              \/ e.t = "E" /\ Go(St("closingZ"))        \* the session middleware refused
         [] cur.s = "blank" ->
              \/ e.t = "I" /\ Go(St("zdue"))
              \/ e.t = "E" /\ Go(St("zdue"))   \* (a server that was given no parse function refuses every Query; PgConn knows which)
         [] cur.s = "q" ->
              \/ e.t = "T" /\ Go(Rows("qrows", e.n))
              \/ e.t = "D" /\ e.n = 0 /\ Go(Rows("qrows", 0))   \* no RowDescription: a statement without columns
              \/ e.t \in {"C", "I"} /\ Go(St("q"))
              \/ e.t = "G" /\ Go(St("qcopy"))
              \/ e.t = "E" /\ Go(St("zdue"))
              \/ e.t = "Z" /\ Go(St("idle"))
         [] cur.s = "qrows" ->
              \/ e.t = "D" /\ e.n = cur.n /\ Go(cur)
              \/ e.t \in {"C", "I"} /\ Go(St("q"))
              \/ e.t = "G" /\ Go(St("qcopy"))
              \/ e.t = "E" /\ Go(St("zdue"))
         [] cur.s = "qcopy" ->
              \/ e.t \in {"C", "I"} /\ Go(St("q"))
              \/ e.t = "E" /\ Go(St("zdue"))
              \/ e.t = "Z" /\ Go(St("idle"))
         [] cur.s = "zdue" -> e.t = "Z" /\ Go(St("idle"))
         [] cur.s = "one" ->
              \/ /\ e.t = cur.want
                 /\ cur' = St("idle") /\ UNCHANGED skip
                 /\ CASE cur.want = "1" -> stmts' = stmts \cup {cur.name} /\ UNCHANGED portals
                      [] cur.want = "2" -> portals' = portals \cup {cur.name} /\ UNCHANGED stmts
                      [] OTHER -> IF cur.kind = "S" THEN stmts' = stmts \ {cur.name} /\ UNCHANGED portals
                                  ELSE portals' = portals \ {cur.name} /\ UNCHANGED stmts
              \/ e.t = "E" /\ Fail
         [] cur.s = "mustfail" -> e.t = "E" /\ Fail
         [] cur.s = "descS" ->
              \/ e.t = "t" /\ Go(St("descS2"))
              \/ e.t = "E" /\ Fail
         [] cur.s = "descS2" -> e.t \in {"T", "n"} /\ Go(St("idle"))
         [] cur.s = "descP" ->
              \/ e.t \in {"T", "n"} /\ Go(St("idle"))
              \/ e.t = "E" /\ Fail
         [] cur.s = "x" ->
              \/ e.t = "D" /\ Go(cur)
              \/ e.t \in {"C", "I"} /\ Go(St("xdone"))
              \/ e.t = "G" /\ Go(St("xcopy"))
              \/ e.t = "E" /\ Fail
         [] cur.s = "xcopy" ->
              \/ e.t \in {"C", "I"} /\ Go(St("xdone"))
              \/ e.t = "E" /\ Fail
         \* the statement function completed its result and may still return an error
         [] cur.s = "xdone" -> e.t = "E" /\ Fail
         [] cur.s = "big" ->
              /\ e.t = "E" /\ e.code = "54000" /\ ~e.fatal
              /\ IF cur.ty \in ExtTypes THEN Fail
                 ELSE IF cur.ty \in {"Q", "S"} THEN Go(St("zdue"))
                 ELSE Go(St("unk1"))
         [] cur.s = "unk" -> e.t = "E" /\ Go(St("unk1"))
         [] cur.s = "unk1" -> e.t = "Z" /\ Go(St("idle"))
         [] cur.s = "mal" -> e.t = "E" /\ Go(St("mal1"))
         [] cur.s = "mal1" -> e.t = "Z" /\ Go(St("mal2"))
         [] cur.s = "closingE" -> e.t = "E" /\ Go(St("closingZ"))
         [] cur.s = "closingZ" -> e.t = "Z" /\ Go(St("closing"))
         [] cur.s = "opaque" -> Go(cur)
         [] OTHER -> FALSE

\* the server closes the connection: only where the conversation allows it
MayClose ==
    \/ cur.s \in {"closing", "closingE", "closingZ", "opaque", "mal", "mal1", "mal2"}
    \/ cur.s = "params"      \* the session middleware refused the session: closed without a word
    \/ cur.s \in {"auth", "auth2"}   \* start-up packet or credentials not acceptable
    \/ faulted
    \/ eofseen /\ inq = <<>> /\ cur.s \in {"idle", "startup", "authwait", "sslans"}

FClose == MayClose /\ cur' = St("dead") /\ UNCHANGED <<inq, skip, stmts, portals, eofseen, faulted, fam>>

---------------------------------------------------------------------------

FTypeOK ==
    /\ skip \in BOOLEAN /\ eofseen \in BOOLEAN /\ faulted \in BOOLEAN
    /\ cur.s \in {"startup", "sslans", "auth", "authwait", "auth2", "params", "idle", "blank", "q", "qrows",
                  "qcopy", "zdue", "one", "mustfail", "descS", "descS2", "descP", "x", "xcopy", "xdone", "big", "unk",
                  "unk1", "mal", "mal1", "mal2", "closing", "closingE", "closingZ", "opaque", "dead"}

\* discarding only ever starts from the extended protocol or an unclassifiable message, inside a session
SkipOnlyInSession == skip => cur.s \in {"idle", "zdue", "closing", "dead"}

=============================================================================
