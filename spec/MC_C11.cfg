SPECIFICATION MCSpec
VIEW View
INVARIANT TypeOK
INVARIANT ReplyMatchesConfig
PROPERTY NothingWhilePending
PROPERTY StuffingNeverDispatched
ACTION_CONSTRAINT Cover
POSTCONDITION ExportDone
CHECK_DEADLOCK FALSE
