---------------------------- MODULE MC_PgWriter ----------------------------
(* every sequence of up to MaxOps Writer operations, with the underlying    *)
(* writer failing from its k-th Write on (k = 0: never)                     *)
EXTENDS PgWriter, Export
CONSTANTS MaxOps, MaxFail
VARIABLES hist
mcvars == <<wvars, hist>>
Types == {"D", "C"}
Adds == {[kind |-> "byte", n |-> 1], [kind |-> "int16", n |-> 2], [kind |-> "int32", n |-> 4],
         [kind |-> "bytes", n |-> 0], [kind |-> "bytes", n |-> 3], [kind |-> "string", n |-> 2], [kind |-> "nul", n |-> 1]}
MCInit == (\E f \in 0..MaxFail : WInit(f)) /\ hist = <<>>
Op(o) == hist' = Append(hist, o)
MCNext ==
    /\ Len(hist) < MaxOps
    /\ \/ \E t \in Types : Start(t) /\ Op([op |-> "start", t |-> t])
       \/ \E a \in Adds : Add(a.n) /\ Op([op |-> "add", kind |-> a.kind, n |-> a.n])
       \/ End /\ Op([op |-> "end"])
       \/ Reset /\ Op([op |-> "reset"])
MCSpec == MCInit /\ [][MCNext]_mcvars
View == <<wvars, Len(hist)>>
Cover == ExportRecord([fail |-> failAt, ops |-> hist'])
StartIsFresh == [][\A t \in Types : (ftype' = t /\ open' /\ fbody' = 0) => flen' = 5]_mcvars
=============================================================================
