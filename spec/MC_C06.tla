------------------------------- MODULE MC_C06 -------------------------------
(***************************************************************************)
(* Bounded model for the extended query protocol: every history of         *)
(* Parse/Bind/Describe/Execute/Close/Flush/Sync over names {"", "a"} and   *)
(* portals {"", "p"}, known and unknown, with parsers and statement        *)
(* functions that succeed or fail, interleaved with simple queries,        *)
(* oversized and unknown messages, stray COPY messages and Terminate.      *)
(***************************************************************************)
EXTENDS PgConn, Export

CONSTANTS MaxSends,   \* client messages per behaviour (Startup included)
          Names,      \* statement names
          PNames,     \* portal names
          Rich        \* TRUE: full alphabet; FALSE: core alphabet

VARIABLES hist,  \* environment steps so far (exported)
          cur,   \* the top-level message whose reaction is in progress
          gone   \* names a Close was sent for: C06 does not judge what Close does to a
                 \* name (C07 does), so these are not referred to again

mcvars == <<vars, hist, cur, gone>>

Cfg0 == [auth |-> "none", tls |-> "nil", params |-> <<>>, version |-> "", mw |-> <<>>,
         term |-> "ok", limit |-> 8192]

Err1 == [base |-> "boom", layers |-> <<>>]
Col1 == <<[name |-> "c1", oid |-> 25]>>
V == [c |-> "v", val |-> "s:x"]
RetNil == [op |-> "ret", r |-> "nil"]
RetErr == [op |-> "ret", r |-> "err", err |-> Err1]
Row1 == [op |-> "row", cells |-> <<V>>]
Done == [op |-> "complete", tag |-> "OK"]

St(id, cols, prog) == [id |-> id, cols |-> cols, oids |-> <<>>, prog |-> prog]
StOk1  == St(1, Col1, <<Row1, Done, RetNil>>)
StOk0  == St(2, <<>>, <<Done, RetNil>>)
StFail == St(3, Col1, <<Row1, RetErr>>)
StPanic == St(8, Col1, <<Row1, [op |-> "panic"]>>)    \* a statement function that panics after a row (extended protocol only)

QOk(st)  == [id |-> st.id, parse |-> "ok", stmts |-> <<st>>]
QErr     == [id |-> 4, parse |-> "err", perr |-> Err1, stmts |-> <<>>]
QMulti   == [id |-> 5, parse |-> "ok", stmts |-> <<StOk0, StOk0>>]
QZero    == [id |-> 6, parse |-> "ok", stmts |-> <<>>]
QBlank   == [id |-> 7, parse |-> "blank", stmts |-> <<>>]

ParseScripts == {QOk(StOk1), QOk(StFail), QErr, QOk(StPanic)} \cup (IF Rich THEN {QOk(StOk0), QMulti, QZero, QBlank} ELSE {})

Alphabet ==
    {[t |-> "P", name |-> n, q |-> q, noids |-> 0] : n \in Names, q \in ParseScripts}
    \cup {[t |-> "B", portal |-> p, stmt |-> n, pfmt |-> <<>>, params |-> <<>>, rfmt |-> <<>>] : p \in PNames, n \in Names}
    \cup {[t |-> "D", kind |-> "S", name |-> n] : n \in Names}
    \cup {[t |-> "D", kind |-> "P", name |-> p] : p \in PNames}
    \cup {[t |-> "E", portal |-> p, max |-> 0] : p \in PNames}
    \cup {[t |-> "H"], [t |-> "S"]}
    \cup {[t |-> "Q", q |-> QOk(StOk1)], [t |-> "Q", q |-> QErr]}
    \* a closed name is unknown: referring to it afterwards is an error like any other
    \cup {[t |-> "C", kind |-> "P", name |-> ""]}
    \cup (IF Rich THEN
            {[t |-> "C", kind |-> "S", name |-> n] : n \in Names}
            \cup {[t |-> "C", kind |-> "P", name |-> p] : p \in PNames}
            \cup {[t |-> "D", kind |-> "x", name |-> ""], [t |-> "D", kind |-> "z", name |-> ""], [t |-> "C", kind |-> "z", name |-> ""], [t |-> "Q", q |-> QBlank],
                  [t |-> "Big", ty |-> "P", over |-> 1], [t |-> "Big", ty |-> "Q", over |-> 7],
                  [t |-> "U"], [t |-> "d"], [t |-> "X"]}
          ELSE {})

StartupMsg == [t |-> "Startup", term |-> TRUE, kvs |-> <<[k |-> "user", v |-> "u"]>>]

Quiet == inq = <<>> /\ ~ENABLED ServerStep

Refers(m) == CASE m.t = "P" -> {<<"S", m.name>>}
               [] m.t = "B" -> {<<"S", m.stmt>>, <<"P", m.portal>>}
               [] m.t = "D" -> {<<m.kind, m.name>>}
               [] m.t = "E" -> {<<"P", m.portal>>}
               [] OTHER -> {}

MCInit == InitWith(Cfg0) /\ hist = <<>> /\ cur = [t |-> "-", skipped |-> FALSE] /\ gone = {}

MCSend ==
    /\ Quiet /\ Len(hist) < MaxSends
    /\ \E m \in IF phase = "startup" THEN {StartupMsg} ELSE Alphabet :
          /\ ClientSend(m)
          /\ hist' = Append(hist, [k |-> "send", m |-> m])
          \* (names closed while they were defined are part of the view until they are defined again: closing a
          \* defined name and closing a name that never existed lead to the same abstract state but not
          \* necessarily to the same implementation state)
          /\ gone' = IF m.t = "C" /\ ((m.kind = "P" /\ m.name \in DOMAIN portals) \/ (m.kind = "S" /\ m.name \in DOMAIN stmts))
                     THEN gone \cup {<<m.kind, m.name>>}
                     ELSE IF m.t = "P" THEN gone \ {<<"S", m.name>>}
                     ELSE IF m.t = "B" THEN gone \ {<<"P", m.portal>>}
                     ELSE gone
    /\ UNCHANGED cur

MCServer ==
    /\ ServerStep
    /\ cur' = IF Reading("ready") THEN [t |-> Head1.t, skipped |-> skip] ELSE cur
    /\ UNCHANGED <<hist, gone>>

MCNext == MCSend \/ MCServer
MCSpec == MCInit /\ [][MCNext]_mcvars

View == <<vars, cur, gone>>

Cover == (hist' # hist) => ExportRecord([cfg |-> cfg, steps |-> hist'])

---------------------------------------------------------------------------
(* C06 on the model.                                                       *)

Kinds(ev, k) == {i \in DOMAIN ev : ev[i].k = k}
RecvT(ev, t) == {i \in DOMAIN ev : ev[i].k = "recv" /\ ev[i].m.t = t}

\* ReadyForQuery is sent for Sync and at the end of a simple-query cycle (and,
\* by E1/E8, possibly for unknown/oversized/undersized non-extended messages) -
\* never for an extended-protocol message.
ReadyOnlyForSync ==
    (phase = "ready" /\ cur.t \in ExtTypes) => RecvT(emit, "Z") = {}

\* exactly one ReadyForQuery per Sync
OneReadyPerSync ==
    (phase = "ready" /\ cur.t = "S" /\ ~ENABLED ServerStep /\ inq = <<>>) =>
        emit = <<Rv(MsgReady)>> \/ emit = <<>>

\* while discarding nothing is emitted and no callback runs (a Terminate may be honoured)
DiscardSilent ==
    (cur.skipped /\ cur.t \notin {"S", "X", "Tiny"}) => emit = <<>> \/ phase # "ready"

\* a failing message: exactly one ErrorResponse, and it is the last thing emitted
FailureOneError ==
    [][(~skip /\ skip') => (Cardinality(RecvT(emit', "E")) = 1 /\ emit'[Len(emit')].m.t = "E")]_mcvars

\* no statement function or parser starts while discarding
NoCallbackWhileSkipping ==
    [][(skip /\ phase = "ready" /\ ~h.on) =>
          \A i \in DOMAIN emit' : emit'[i].k = "cb" => emit'[i].c.name = "terminate"]_mcvars

=============================================================================
