---------------------------- MODULE Trace_Robust ----------------------------
(***************************************************************************)
(* C04 for input the abstract vocabulary cannot classify (random and       *)
(* mutated byte strings, count bombs, helper fuzzing).  What such input     *)
(* makes the server say is not prescribed; what is prescribed:              *)
(*   - the process survives (a crash leaves no trace to accept),            *)
(*   - the hostile connection is closed once its input has ended (no        *)
(*     "wedged" event, a "close" before the next execution),                *)
(*   - the memory allocated on behalf of the input stays within a constant  *)
(*     factor of the limit plus what was really sent,                       *)
(*   - the documented helpers return (value or error) on any input,         *)
(*   - a fresh connection is then accepted and served exactly as usual      *)
(*     (AuthenticationOk, parameters, ReadyForQuery, CommandComplete,       *)
(*     ReadyForQuery, close).                                               *)
(***************************************************************************)
EXTENDS Integers, Sequences, TLC, Json
Trace == ndJsonDeserialize("trace.ndjson")
VARIABLES l, mode, pk
tvars == <<l, mode, pk>>
Ev == Trace[l]
More == l <= Len(Trace)
MaxOf2(a, b) == IF a >= b THEN a ELSE b

TInit == l = 1 /\ mode = "idle" /\ pk = <<>>

TCfg == /\ More /\ Ev.k = "cfg" /\ mode \in {"idle", "ended"}
        /\ mode' = IF Ev.probe THEN "probe" ELSE "junk"
        /\ pk' = <<>> /\ l' = l + 1

TJunk == /\ More /\ mode = "junk"
         /\ \/ Ev.k \in {"junk", "recv", "cb", "idle", "send", "eof", "fault"} /\ UNCHANGED mode
            \/ Ev.k = "x-alloc" /\ Ev.bytes <= 4 * MaxOf2(Ev.limit, 4096) + 2 * Ev.sent + 4194304 /\ UNCHANGED mode
            \/ Ev.k = "x-helper" /\ Ev.returned /\ UNCHANGED mode
            \/ Ev.k = "close" /\ mode' = "ended"
         /\ l' = l + 1 /\ UNCHANGED pk

\* the measurement of the last hostile write is taken after the server reacted - possibly by closing
TAllocLate == /\ More /\ mode = "ended" /\ Ev.k = "x-alloc"
              /\ Ev.bytes <= 4 * MaxOf2(Ev.limit, 4096) + 2 * Ev.sent + 4194304
              /\ l' = l + 1 /\ UNCHANGED <<mode, pk>>

TProbe == /\ More /\ mode = "probe"
          /\ \/ Ev.k = "recv" /\ Ev.m.t = "S" /\ UNCHANGED <<mode, pk>>
             \/ Ev.k = "recv" /\ Ev.m.t # "S" /\ pk' = Append(pk, Ev.m.t) /\ UNCHANGED mode
             \/ Ev.k \in {"send", "idle", "cb", "eof"} /\ UNCHANGED <<mode, pk>>
             \/ Ev.k = "close" /\ pk = <<"R", "Z", "C", "Z">> /\ mode' = "ended" /\ UNCHANGED pk
          /\ l' = l + 1

\* executions made only of helper calls end without a connection
THelperOnlyEnd == /\ More /\ Ev.k = "end" /\ mode = "junk" /\ mode' = "ended" /\ l' = l + 1 /\ UNCHANGED pk

TNext == TCfg \/ TAllocLate \/ TJunk \/ TProbe \/ THelperOnlyEnd
TSpec == TInit /\ [][TNext]_tvars
ASSUME TLCSet(1, 0) /\ TLCSet(2, "none")
HighWater == IF l > TLCGet(1) THEN TLCSet(1, l) /\ TLCSet(2, [mode |-> mode, pk |-> pk]) ELSE TRUE
Accepted ==
    IF TLCGet(1) = Len(Trace) + 1 THEN TRUE
    ELSE /\ PrintT(<<"REJECTED at line", TLCGet(1), "of", Len(Trace)>>)
         /\ PrintT(<<"event", Trace[TLCGet(1)]>>)
         /\ PrintT(<<"state", TLCGet(2)>>)
         /\ FALSE
=============================================================================
