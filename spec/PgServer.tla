------------------------------ MODULE PgServer ------------------------------
(***************************************************************************)
(* Server lifecycle at the grain of the code's critical sections: Close    *)
(* (any number of concurrent callers), the closer goroutine started by     *)
(* Serve, the accept loop, and the admission of a command on a connection  *)
(* (closing check, WaitGroup registration, handler, completion).           *)
(*                                                                         *)
(* One action per hook point of the implementation (build tag verif): an   *)
(* action is "the goroutine runs from the point where it is parked to the  *)
(* next point"; its effect takes place atomically somewhere in between      *)
(* (Trace_PgServer separates release, effect and arrival).                  *)
(*                                                                         *)
(*   Close:      close.enter  close.locked  close.decided  close.waiting   *)
(*               close.return                                              *)
(*   admission:  cmd.admit  cmd.locked  cmd.added | cmd.refused            *)
(*               cmd.admitted  h.enter (gate inside the statement          *)
(*               function)  cmd.done                                       *)
(*                                                                         *)
(* Variant = "repaired": the design of the current tree - the closing      *)
(* transition and the admission are critical sections of one mutex; every  *)
(* Close waits.  Variant = "pinned": the design of the pinned tree - flag   *)
(* read, flag write and close(chan) are separate unsynchronised steps and a *)
(* caller that sees the flag set returns at once.  The pinned variant is    *)
(* kept as a negative self-test: TLC must find its counterexamples.         *)
(* Variant = "sched": not a design but the SCHEDULER model used to drive    *)
(* the real goroutines: no lock, and a caller that saw the flag set still    *)
(* walks through every hook point without waiting - a superset of the step   *)
(* sequences of both designs, so that deviations of the code in either      *)
(* direction are exercised.  The real order of events is always judged       *)
(* against "repaired".                                                       *)
(*                                                                         *)
(* Code bound to: wire.go Serve / Close / admit, command.go                *)
(* consumeSingleCommand.                                                    *)
(***************************************************************************)
EXTENDS Integers, Sequences, FiniteSets, TLC

CONSTANTS
    \* @type: Set(Str);
    Closers,   \* callers of Close
    \* @type: Set(Str);
    Conns,     \* connections (already in a session)
    \* @type: Str;
    Variant    \* "repaired" | "pinned" | "sched"

VARIABLES
    \* @type: Bool;
    closing,      \* the closing flag
    \* @type: Int;
    chanClosed,   \* number of close(closer) executions (2 = panic)
    \* @type: Str;
    mu,           \* holder of the server mutex, or "free"
    \* @type: Int;
    wg,           \* WaitGroup counter
    \* @type: Bool;
    lclosed,      \* the listener has been closed
    \* @type: Bool;
    cgDone,       \* the closer goroutine has finished
    \* @type: Str;
    served,       \* "running" | "nil": Serve has returned nil
    \* @type: Str -> Str;
    kpc,          \* closer -> where its goroutine is parked
    \* @type: Str -> Str;
    cpc,          \* connection -> where its goroutine is parked
    \* @type: Str -> Bool;
    saw,          \* actor -> value of the closing flag it read
    \* @type: Bool;
    returned      \* some Close call has returned

svars == <<closing, chanClosed, mu, wg, lclosed, cgDone, served, kpc, cpc, saw, returned>>

Actors == Closers \cup Conns

SInit ==
    /\ closing = FALSE /\ chanClosed = 0 /\ mu = "free" /\ wg = 1   \* Serve has registered its closer goroutine
    /\ lclosed = FALSE /\ cgDone = FALSE /\ served = "running"
    /\ kpc = [k \in Closers |-> "off"]
    /\ cpc = [c \in Conns |-> "idle"]
    /\ saw = [a \in Actors |-> FALSE]
    /\ returned = FALSE

Locked == Variant = "repaired"

---------------------------------------------------------------------------
(* Close                                                                   *)

\* a goroutine calls Close and arrives at close.enter
KStart(k) ==
    /\ kpc[k] = "off"
    /\ kpc' = [kpc EXCEPT ![k] = "enter"]
    /\ UNCHANGED <<closing, chanClosed, mu, wg, lclosed, cgDone, served, cpc, saw, returned>>

\* close.enter -> close.locked: (acquire the mutex and) read the flag
KLock(k) ==
    /\ kpc[k] = "enter"
    /\ IF Locked THEN mu = "free" /\ mu' = k ELSE UNCHANGED mu
    /\ saw' = [saw EXCEPT ![k] = closing]
    /\ kpc' = [kpc EXCEPT ![k] = "locked"]
    /\ UNCHANGED <<closing, chanClosed, wg, lclosed, cgDone, served, cpc, returned>>

\* close.locked -> close.decided: the first caller sets the flag and closes
\* the channel.  Pinned: a caller that saw the flag
\* set returns at once; the others store and close without looking again (a
\* second close panics).
KDecide(k) ==
    /\ kpc[k] = "locked"
    /\ IF Locked
       THEN /\ IF ~closing THEN closing' = TRUE /\ chanClosed' = chanClosed + 1
                           ELSE UNCHANGED <<closing, chanClosed>>
            /\ kpc' = [kpc EXCEPT ![k] = "decided"]
            /\ UNCHANGED returned
       ELSE IF saw[k]
            THEN /\ IF Variant = "pinned"
                    THEN kpc' = [kpc EXCEPT ![k] = "done"] /\ returned' = TRUE
                    ELSE kpc' = [kpc EXCEPT ![k] = "decided"] /\ UNCHANGED returned   \* "sched": walks on
                 /\ UNCHANGED <<closing, chanClosed>>
            ELSE /\ closing' = TRUE /\ chanClosed' = chanClosed + 1
                 /\ kpc' = [kpc EXCEPT ![k] = IF chanClosed = 0 THEN "decided" ELSE "panicked"]
                 /\ UNCHANGED returned
    /\ UNCHANGED <<mu, wg, lclosed, cgDone, served, cpc, saw>>

\* close.decided -> close.waiting: leave the critical section
KUnlock(k) ==
    /\ kpc[k] = "decided"
    /\ IF Locked THEN mu' = "free" ELSE UNCHANGED mu
    /\ kpc' = [kpc EXCEPT ![k] = "waiting"]
    /\ UNCHANGED <<closing, chanClosed, wg, lclosed, cgDone, served, cpc, saw, returned>>

\* released from close.waiting: the goroutine enters WaitGroup.Wait
KWaitBegin(k) ==
    /\ kpc[k] = "waiting"
    /\ kpc' = [kpc EXCEPT ![k] = "inwait"]
    /\ UNCHANGED <<closing, chanClosed, mu, wg, lclosed, cgDone, served, cpc, saw, returned>>

\* Wait returns (only when the counter is zero) -> close.return
KWaitEnd(k) ==
    /\ kpc[k] = "inwait" /\ (wg = 0 \/ (Variant = "sched" /\ saw[k]))
    /\ kpc' = [kpc EXCEPT ![k] = "return"]
    /\ returned' = TRUE
    /\ UNCHANGED <<closing, chanClosed, mu, wg, lclosed, cgDone, served, cpc, saw>>

\* Close returns to its caller
KReturn(k) ==
    /\ kpc[k] = "return"
    /\ kpc' = [kpc EXCEPT ![k] = "done"]
    /\ UNCHANGED <<closing, chanClosed, mu, wg, lclosed, cgDone, served, cpc, saw, returned>>

---------------------------------------------------------------------------
(* The goroutine started by Serve: waits for the channel, closes the        *)
(* listener, deregisters.  The accept loop then returns nil.                *)

CloserGo ==
    /\ chanClosed >= 1 /\ ~cgDone
    /\ lclosed' = TRUE /\ cgDone' = TRUE /\ wg' = wg - 1
    /\ UNCHANGED <<closing, chanClosed, mu, served, kpc, cpc, saw, returned>>

ServeReturn ==
    /\ lclosed /\ served = "running"
    /\ served' = "nil"
    /\ UNCHANGED <<closing, chanClosed, mu, wg, lclosed, cgDone, kpc, cpc, saw, returned>>

---------------------------------------------------------------------------
(* A command on a connection                                               *)

\* a complete message is delivered: the goroutine reads it and arrives at cmd.admit
Deliver(c) ==
    /\ cpc[c] \in {"idle", "midread"}
    /\ cpc' = [cpc EXCEPT ![c] = "admit"]
    /\ UNCHANGED <<closing, chanClosed, mu, wg, lclosed, cgDone, served, kpc, saw, returned>>

\* part of a message is delivered: the goroutine is in the middle of reading
DeliverPart(c) ==
    /\ cpc[c] = "idle"
    /\ cpc' = [cpc EXCEPT ![c] = "midread"]
    /\ UNCHANGED <<closing, chanClosed, mu, wg, lclosed, cgDone, served, kpc, saw, returned>>

\* cmd.admit -> cmd.locked: (acquire the mutex and) read the flag
CLock(c) ==
    /\ cpc[c] = "admit"
    /\ IF Locked THEN mu = "free" /\ mu' = c ELSE UNCHANGED mu
    /\ saw' = [saw EXCEPT ![c] = closing]
    /\ cpc' = [cpc EXCEPT ![c] = "locked"]
    /\ UNCHANGED <<closing, chanClosed, wg, lclosed, cgDone, served, kpc, returned>>

\* cmd.locked -> cmd.refused (closing: the command is not started) or
\* cmd.added (registered with the WaitGroup)
CDecide(c) ==
    /\ cpc[c] = "locked"
    /\ IF saw[c]
       THEN /\ cpc' = [cpc EXCEPT ![c] = "refused"]
            /\ IF Locked THEN mu' = "free" ELSE UNCHANGED mu
            /\ UNCHANGED wg
       ELSE /\ cpc' = [cpc EXCEPT ![c] = "added"]
            /\ wg' = wg + 1
            /\ UNCHANGED mu
    /\ UNCHANGED <<closing, chanClosed, lclosed, cgDone, served, kpc, saw, returned>>

\* cmd.added -> cmd.admitted: leave the critical section; the command is
\* registered - Close waits for it from here on, before its handler has begun
CEnter(c) ==
    /\ cpc[c] = "added"
    /\ IF Locked THEN mu' = "free" ELSE UNCHANGED mu
    /\ cpc' = [cpc EXCEPT ![c] = "admitted"]
    /\ UNCHANGED <<closing, chanClosed, wg, lclosed, cgDone, served, kpc, saw, returned>>

\* cmd.admitted -> h.enter: the handler starts
CStart(c) ==
    /\ cpc[c] = "admitted"
    /\ cpc' = [cpc EXCEPT ![c] = "handler"]
    /\ UNCHANGED <<closing, chanClosed, mu, wg, lclosed, cgDone, served, kpc, saw, returned>>

\* h.enter -> cmd.done: the handler finishes and the command is deregistered
CFinish(c) ==
    /\ cpc[c] = "handler"
    /\ wg' = wg - 1
    /\ cpc' = [cpc EXCEPT ![c] = "donep"]
    /\ UNCHANGED <<closing, chanClosed, mu, lclosed, cgDone, served, kpc, saw, returned>>

\* back to reading the next message
CLoop(c) ==
    /\ cpc[c] \in {"donep", "refused"}
    /\ cpc' = [cpc EXCEPT ![c] = "idle"]
    /\ UNCHANGED <<closing, chanClosed, mu, wg, lclosed, cgDone, served, kpc, saw, returned>>

---------------------------------------------------------------------------

KStep(k) == KStart(k) \/ KLock(k) \/ KDecide(k) \/ KUnlock(k) \/ KWaitBegin(k) \/ KWaitEnd(k) \/ KReturn(k)
CStep(c) == Deliver(c) \/ DeliverPart(c) \/ CLock(c) \/ CDecide(c) \/ CEnter(c) \/ CStart(c) \/ CFinish(c) \/ CLoop(c)

SNext == (\E k \in Closers : KStep(k)) \/ (\E c \in Conns : CStep(c)) \/ CloserGo \/ ServeReturn

---------------------------------------------------------------------------
(* C16                                                                     *)

STypeOK ==
    /\ closing \in BOOLEAN /\ chanClosed \in 0..3 /\ wg \in Int
    /\ mu \in {"free"} \cup Actors

\* calling Close repeatedly or concurrently never panics
NoPanic == chanClosed <= 1 /\ \A k \in Closers : kpc[k] # "panicked"

\* the WaitGroup counter never goes negative (would panic)
CounterOK == wg >= 0

\* Close returns only after every command handler that had started has finished
Graceful == \A k \in Closers : kpc[k] \in {"return", "done"} => \A c \in Conns : cpc[c] \notin {"added", "admitted", "handler"}

\* once a Close has returned, no parser or statement function begins
NoStartAfterReturn ==
    [][returned => \A c \in Conns : cpc'[c] = "handler" => cpc[c] = "handler"]_svars

\* Close stops the accept loop: Serve returns nil (and never anything else)
ServeOK == served \in {"running", "nil"}

=============================================================================
