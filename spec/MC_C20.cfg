SPECIFICATION MCSpec
CONSTANTS
  MaxToks = 3
INVARIANT CountRules
ACTION_CONSTRAINT Cover
POSTCONDITION ExportDone
CHECK_DEADLOCK FALSE
