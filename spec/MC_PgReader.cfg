SPECIFICATION Spec1
CONSTANTS
  G = 4
  Limits = {2, 4, 6}
  MaxMsgs = 4
  MaxBody = 0
  MaxOps = 0
  Part = 1
VIEW View1
INVARIANT NoOverwrite
INVARIANT NeverBuffersOversize
ACTION_CONSTRAINT Cover1
POSTCONDITION ExportDone
CHECK_DEADLOCK FALSE
