SPECIFICATION TSpec
CONSTRAINT HighWater
INVARIANT FTypeOK
INVARIANT SkipOnlyInSession
POSTCONDITION Accepted
CHECK_DEADLOCK FALSE
