------------------------------- MODULE MC_C07 -------------------------------
(***************************************************************************)
(* Bounded model for name resolution: every history of Parse / Bind /      *)
(* Describe / Execute / Close over statement names {"", "a"} and portal    *)
(* names {"", "p"}.  Every Parse creates a NEW definition (fresh id `ver', *)
(* visible to the client as a column name and to the harness as the `def'  *)
(* of the statement callback), so "which definition ran, with which        *)
(* parameters" is observable.  A Sync follows every message, so the        *)
(* discard-until-Sync rule (C06) never influences these histories.         *)
(***************************************************************************)
EXTENDS PgConn, Export

CONSTANTS MaxSends, MaxVer, Names, PNames, CustomCache

VARIABLES hist, ver,
          pfrom,    \* portal name -> statement name it was bound from
          tainted   \* portals whose statement name was closed after the bind (E16: not used)

mcvars == <<vars, hist, ver, pfrom, tainted>>

\* CustomCache: the server is configured with its own statement and portal caches
Cfg0 == IF CustomCache
        THEN [auth |-> "none", tls |-> "nil", params |-> <<>>, version |-> "", mw |-> <<>>,
              term |-> "none", limit |-> 8192, cache |-> "custom"]
        ELSE [auth |-> "none", tls |-> "nil", params |-> <<>>, version |-> "", mw |-> <<>>,
              term |-> "none", limit |-> 8192]

Done == [op |-> "complete", tag |-> "OK"]
RetNil == [op |-> "ret", r |-> "nil"]
St(v) == [id |-> v, cols |-> <<[name |-> "v" \o ToString(v), oid |-> 25]>>, oids |-> <<>>,
          prog |-> <<[op |-> "row", cells |-> <<[c |-> "v", val |-> "s:r" \o ToString(v)]>>], Done, RetNil>>]
Script(v) == [id |-> v, parse |-> "ok", stmts |-> <<St(v)>>]

Alphabet ==
    (IF ver <= MaxVer THEN {[t |-> "P", name |-> n, q |-> Script(ver), noids |-> 0] : n \in Names} ELSE {})
    \cup {[t |-> "B", portal |-> p, stmt |-> n, pfmt |-> <<>>, params |-> <<[null |-> FALSE, dig |-> d, scan |-> d]>>, rfmt |-> f] :
             p \in PNames, n \in Names, d \in {"s:1", "s:2"}, f \in {<<>>, <<1>>}}
    \cup {[t |-> "D", kind |-> "S", name |-> n] : n \in Names}
    \cup {[t |-> "D", kind |-> "P", name |-> p] : p \in PNames \ tainted}
    \cup {[t |-> "E", portal |-> p, max |-> 0] : p \in PNames \ tainted}
    \cup {[t |-> "C", kind |-> "S", name |-> n] : n \in Names}
    \cup {[t |-> "C", kind |-> "P", name |-> p] : p \in PNames}

StartupMsg == [t |-> "Startup", term |-> TRUE, kvs |-> <<[k |-> "user", v |-> "u"]>>]
SyncMsg == [t |-> "S"]
Quiet == inq = <<>> /\ ~ENABLED ServerStep

MCInit == InitWith(Cfg0) /\ hist = <<>> /\ ver = 1 /\ pfrom = <<>> /\ tainted = {}

MCSend ==
    /\ Quiet /\ Len(hist) < MaxSends /\ phase # "closed"
    /\ IF phase = "startup"
       THEN /\ ClientSend(StartupMsg)
            /\ hist' = Append(hist, [k |-> "send", m |-> StartupMsg])
            /\ UNCHANGED <<ver, pfrom, tainted>>
       ELSE \E m \in Alphabet :
            /\ inq' = inq \o <<m, SyncMsg>> /\ emit' = <<>>
            /\ UNCHANGED <<cfg, phase, ssl, mwi, cparams, eof, faulted, stmts, portals, skip, hq, h>>
            /\ hist' = hist \o <<[k |-> "send", m |-> m, nowait |-> TRUE], [k |-> "send", m |-> SyncMsg]>>
            /\ ver' = IF m.t = "P" THEN ver + 1 ELSE ver
            \* pfrom also remembers how the portal was bound before (statement name and result formats): binding
            \* a live portal again and binding a fresh one lead to the same abstract state, but the implementation
            \* may treat them differently - both histories are replayed
            /\ pfrom' = IF m.t = "B"
                        THEN Put(pfrom, m.portal,
                                 <<m.stmt, IF m.portal \in DOMAIN portals THEN <<pfrom[m.portal][1], portals[m.portal].rfmt>> ELSE <<>>>>)
                        ELSE pfrom
            /\ tainted' = IF m.t = "B" THEN tainted \ {m.portal}
                          ELSE IF m.t = "C" /\ m.kind = "S"
                          THEN tainted \cup {p \in DOMAIN pfrom : pfrom[p][1] = m.name}
                          ELSE tainted

MCServer == ServerStep /\ UNCHANGED <<hist, ver, pfrom, tainted>>
MCNext == MCSend \/ MCServer
MCSpec == MCInit /\ [][MCNext]_mcvars

View == <<vars, ver, pfrom, tainted>>
Cover == (hist' # hist) => ExportRecord([cfg |-> cfg, steps |-> hist'])

---------------------------------------------------------------------------
(* C07 on the model.                                                       *)

\* a portal keeps the definition and the parameters of ITS Bind, whatever
\* happens to the statement name afterwards: the callback of an Execute names
\* the definition stored in the portal
ExecUsesSnapshot ==
    \A i \in DOMAIN emit :
        (emit[i].k = "cb" /\ emit[i].c.name = "stmt.start" /\ h.on) =>
            /\ emit[i].c.def = h.st.id
            /\ emit[i].c.params = h.params

\* the statement map only ever holds definitions that were parsed, newest id
\* under a name never decreases
LatestWins ==
    [][\A n \in DOMAIN stmts \cap DOMAIN stmts' : stmts'[n].id >= stmts[n].id]_mcvars

=============================================================================
