------------------------------- MODULE MC_C04 -------------------------------
(***************************************************************************)
(* Bounded model for hostile input: in every phase (startup, after a       *)
(* refused SSL negotiation, authentication, session, discarding, inside a   *)
(* COPY) the client sends a message of every malformation class - body not  *)
(* parseable under its type (missing terminator, short field, count beyond  *)
(* the body), declared length below the minimum, declared length beyond the *)
(* limit, unknown type, a header declaring gigabytes followed by a few      *)
(* bytes - followed by a continuation, or simply stops (end of input).      *)
(* The specification gives every such step an outcome (the connection ends, *)
(* or an error is reported and the session goes on) and NEVER a callback.   *)
(***************************************************************************)
EXTENDS PgConn, Export

CONSTANTS MaxSends

VARIABLES hist
mcvars == <<vars, hist>>

Cfgs == {[auth |-> a, tls |-> "nil", params |-> <<>>, version |-> "", mw |-> <<>>, term |-> "ok", limit |-> 8192] :
            a \in {"none", "clear"}}

Done == [op |-> "complete", tag |-> "OK"]
RetNil == [op |-> "ret", r |-> "nil"]
Read == [op |-> "copyread", onerr |-> "ret"]
Q1 == [id |-> 1, parse |-> "ok", stmts |-> <<[id |-> 1, cols |-> <<>>, oids |-> <<>>, prog |-> <<Done, RetNil>>]>>]
QCopy == [id |-> 2, parse |-> "ok", stmts |-> <<[id |-> 2, cols |-> <<[name |-> "c", oid |-> 25]>>, oids |-> <<>>,
                                                 prog |-> <<[op |-> "copyin", fmt |-> 0], Read, Read, Done, RetNil>>]>>]
QFail == [id |-> 3, parse |-> "err", perr |-> [base |-> "boom", layers |-> <<>>], stmts |-> <<>>]

Bads == {[t |-> "Bad", ty |-> ty, cls |-> c] : ty \in {"Q", "P", "B", "D", "E", "C", "f"}, c \in {"nonul", "short", "count"}}
Hostile == Bads
           \cup {[t |-> "Tiny", ty |-> ty, declared |-> d] : ty \in {"Q", "B"}, d \in {0, 3}}
           \cup {[t |-> "Big", ty |-> ty, over |-> 1] : ty \in {"Q", "P", "U"}}
           \cup {[t |-> "U"]}
           \cup {[t |-> "Huge", ty |-> "B", declared |-> "2^31", sent |-> 10]}
Good == {[t |-> "Q", q |-> Q1], [t |-> "S"], [t |-> "P", name |-> "", q |-> QFail, noids |-> 0]}

StartupMsg == [t |-> "Startup", term |-> TRUE, kvs |-> <<[k |-> "user", v |-> "u"]>>]
Quiet == inq = <<>> /\ ~ENABLED ServerStep
InCopy == h.on /\ h.copy

MCInit == (\E c \in Cfgs : InitWith(c)) /\ hist = <<>>
Push(m) == ClientSend(m) /\ hist' = Append(hist, [k |-> "send", m |-> m])
NHostile == Len(SelectSeq(hist, LAMBDA e : e.k = "send" /\ e.m.t \in {"Bad", "Tiny", "Big", "U", "Huge"}))

MCSend ==
    /\ Quiet /\ phase \notin {"closed", "slurp"} /\ ~eof /\ Len(hist) < MaxSends
    /\ \/ /\ phase = "startup" /\ ssl = "none" /\ Push([t |-> "SSLRequest", stuffed |-> FALSE])
       \/ /\ phase = "startup" /\ Push(StartupMsg)
       \/ /\ phase = "startup" /\ \E m \in {[t |-> "Bad", ty |-> "Startup", cls |-> c] : c \in {"nonul", "short"}}
                                           \cup {[t |-> "Tiny", ty |-> "Startup", declared |-> 2], [t |-> "Big", ty |-> "Startup", over |-> 1]} : Push(m)
       \/ /\ phase = "auth" /\ Push([t |-> "p", pw |-> "good", pwd |-> "good"])
       \/ /\ phase = "auth" /\ \E m \in Hostile : m.t # "Huge" /\ Push(m)
       \/ /\ phase = "ready" /\ ~InCopy /\ \E m \in Good \cup {[t |-> "Q", q |-> QCopy]} : Push(m)
       \/ /\ phase = "ready" /\ ~InCopy /\ NHostile < 2 /\ \E m \in Hostile : Push(m)
       \/ /\ phase = "ready" /\ InCopy /\ \E m \in Bads \cup {[t |-> "U"], [t |-> "d", dig |-> "s:x"], [t |-> "c"]} : Push(m)

MCEof ==
    /\ Quiet /\ phase # "closed" /\ ~eof /\ ClientEOF
    /\ hist' = Append(hist, [k |-> "eof"])

MCServer == ServerStep /\ UNCHANGED hist
MCNext == MCSend \/ MCEof \/ MCServer
MCSpec == MCInit /\ [][MCNext]_mcvars
View == vars
Cover == (hist' # hist) => ExportRecord([cfg |-> cfg, probe |-> TRUE, steps |-> hist'])

---------------------------------------------------------------------------
(* C04 on the model.                                                       *)

\* a malformed, undersized, oversized or unknown message never reaches a user callback
HostileNeverReachesCallbacks ==
    [][(inq # <<>> /\ Head(inq).t \in {"Bad", "Tiny", "Big", "U", "Huge"} /\ inq' = Tail(inq) /\ ~(h.on /\ h.copy)) =>
          \A i \in DOMAIN emit' : emit'[i].k # "cb"]_mcvars

\* handling ends once the input ends: when the client has closed its side and
\* everything was consumed, the only possible step closes the connection
EndsWhenInputEnds ==
    (eof /\ inq = <<>> /\ phase # "closed" /\ ~h.on /\ hq = <<>> /\ phase \in {"startup", "auth", "ready", "slurp"}) => ENABLED ServerEOF

=============================================================================
