------------------------------- MODULE MC_C09 -------------------------------
(***************************************************************************)
(* Bounded model for row values: every row of 1..MaxCols columns whose     *)
(* cells are a value, an untyped nil, a nil pointer, an invalid nullable   *)
(* value or a non-NULL empty value, under every admissible result-format   *)
(* list (and the simple protocol, text only).  Column types and values are  *)
(* substituted by the harness (13 types, boundary values); the model fixes  *)
(* arity, NULL marking, emptiness and the format of every field.            *)
(***************************************************************************)
EXTENDS PgConn, Export

CONSTANTS MaxCols

VARIABLES hist, stage
mcvars == <<vars, hist, stage>>

Cfg0 == [auth |-> "none", tls |-> "nil", params |-> <<>>, version |-> "", mw |-> <<>>,
         term |-> "none", limit |-> 1048576]

CellKinds == {[c |-> "v", val |-> "s:x"], [c |-> "null", nk |-> "nil"], [c |-> "null", nk |-> "ptr"],
              [c |-> "null", nk |-> "inv"], [c |-> "empty", val |-> "s:"]}
Rows == UNION {[1..n -> CellKinds] : n \in 1..MaxCols}
Cols(n) == [i \in 1..n |-> [name |-> "c" \o ToString(i), oid |-> 25]]
CodeLists(n) == {<<>>, <<0>>, <<1>>} \cup (IF n >= 2 THEN [1..n -> {0, 1}] ELSE {})

St(row) == [id |-> 1, cols |-> Cols(Len(row)), oids |-> <<>>, anytype |-> TRUE,
            prog |-> <<[op |-> "row", cells |-> row], [op |-> "row", cells |-> row],
                       [op |-> "complete", tag |-> "SELECT 2"], [op |-> "ret", r |-> "nil"]>>]
Script(row) == [id |-> 1, parse |-> "ok", stmts |-> <<St(row)>>]

StartupMsg == [t |-> "Startup", term |-> TRUE, kvs |-> <<[k |-> "user", v |-> "u"]>>]
Quiet == inq = <<>> /\ ~ENABLED ServerStep

MCInit == InitWith(Cfg0) /\ hist = <<>> /\ stage = 0

Next1(m) == ClientSend(m) /\ hist' = Append(hist, [k |-> "send", m |-> m])

\* stage 1: simple protocol (stage' = 10: done) or extended (Parse, Bind, Describe, Execute, Sync)
MCSend ==
    /\ Quiet /\ phase # "closed"
    /\ CASE stage = 0 -> Next1(StartupMsg) /\ stage' = 1
         [] stage = 1 -> \/ \E r \in Rows : Next1([t |-> "Q", q |-> Script(r)]) /\ stage' = 10
                         \/ \E r \in Rows : Next1([t |-> "P", name |-> "", q |-> Script(r), noids |-> 0]) /\ stage' = 2
         [] stage = 2 -> \E rf \in CodeLists(Len(stmts[""].cols)) :
                            Next1([t |-> "B", portal |-> "", stmt |-> "", pfmt |-> <<>>, params |-> <<>>, rfmt |-> rf]) /\ stage' = 3
         [] stage = 3 -> Next1([t |-> "D", kind |-> "P", name |-> ""]) /\ stage' = 4
         [] stage = 4 -> Next1([t |-> "E", portal |-> "", max |-> 0]) /\ stage' = 5
         [] stage = 5 -> Next1([t |-> "S"]) /\ stage' = 10
         [] OTHER -> FALSE

MCServer == ServerStep /\ UNCHANGED <<hist, stage>>
MCNext == MCSend \/ MCServer
MCSpec == MCInit /\ [][MCNext]_mcvars
View == <<vars, stage>>
Cover == (hist' # hist /\ stage' = 10) => ExportRecord([cfg |-> cfg, steps |-> hist'])

---------------------------------------------------------------------------
(* C09 on the model.                                                       *)

DataRows == {emit[i].m : i \in {j \in DOMAIN emit : emit[j].k = "recv" /\ emit[j].m.t = "D"}}

\* one DataRow per written row, with as many fields as the statement has columns
ArityMatches == \A d \in DataRows : h.on => d.n = Len(h.st.cols) /\ Len(d.cells) = d.n

\* NULL (of any kind) is length -1 without payload; an empty value is not NULL
NullStaysNull ==
    \A d \in DataRows : \A j \in DOMAIN d.cells :
        LET w == h.st.prog[h.pc - 1].cells[j] IN
        /\ (w.c = "null") = d.cells[j].null
        /\ (w.c = "empty") => (~d.cells[j].null /\ d.cells[j].empty)
        /\ (w.c = "v") => (~d.cells[j].null /\ ~d.cells[j].empty)

=============================================================================
