------------------------------- MODULE Export -------------------------------
(***************************************************************************)
(* Exporting behaviours from TLC as JSON (one behaviour per line), through *)
(* TLC registers: 10 = buffer, 11 = chunk counter, 12 = total.  Run with   *)
(* -workers 1.  Files beh_<k>.ndjson are written to the working directory. *)
(***************************************************************************)
EXTENDS Integers, Sequences, TLC, Json

ASSUME TLCSet(10, <<>>) /\ TLCSet(11, 0) /\ TLCSet(12, 0)

ExportFlush ==
    IF Len(TLCGet(10)) > 0
    THEN /\ ndJsonSerialize("beh_" \o ToString(TLCGet(11)) \o ".ndjson", TLCGet(10))
         /\ TLCSet(11, TLCGet(11) + 1)
         /\ TLCSet(10, <<>>)
    ELSE TRUE

ExportRecord(b) ==
    /\ TLCSet(10, Append(TLCGet(10), b))
    /\ TLCSet(12, TLCGet(12) + 1)
    /\ IF Len(TLCGet(10)) >= 1000 THEN ExportFlush ELSE TRUE

ExportDone == ExportFlush /\ PrintT(<<"EXPORTED", TLCGet(12)>>)
=============================================================================
