SPECIFICATION TSpec
CONSTANTS
  NCols = 0
CONSTRAINT HighWater
POSTCONDITION Accepted
CHECK_DEADLOCK FALSE
