SPECIFICATION MCSpec
CONSTANTS
  Closers = {"k1", "k2"}
  Conns = {"c1"}
  Variant = "pinned"
  MaxCmds = 1
INVARIANT NoPanic
INVARIANT Graceful
PROPERTY NoStartAfterReturn
CHECK_DEADLOCK FALSE
