------------------------------ MODULE PgShare ------------------------------
(***************************************************************************)
(* Memory shared between the connections of one server, at the grain at    *)
(* which the code accesses it without any lock of its own:                 *)
(*                                                                         *)
(*   type map      encoding a row value goes through a pgtype.Map, which    *)
(*                 memoises encode plans: a call is a read-then-write of    *)
(*                 the memo (EncEnter / EncExit), NOT safe concurrently     *)
(*   global params the configured parameter map: every connection reads it  *)
(*                 (and clones it); nobody writes it                        *)
(*   caches        statement / portal caches: one per connection            *)
(*                                                                         *)
(* MapOf(c) is the sharing structure: "repaired" - every connection has a   *)
(* map of its own; "pinned" - one map per server (the design of the pinned  *)
(* tree, kept as a negative self-test).                                     *)
(***************************************************************************)
EXTENDS Integers, FiniteSets, TLC

CONSTANTS Conns, Variant, MaxRows

VARIABLES inEnc,    \* connection -> map it is inside of ("none": outside)
          rows,     \* connection -> rows encoded so far
          gpReads,  \* reads of the global parameter map in progress
          gpWrites  \* writes of the global parameter map ever made

shvars == <<inEnc, rows, gpReads, gpWrites>>

MapOf(c) == IF Variant = "repaired" THEN c ELSE "server"

ShInit == inEnc = [c \in Conns |-> "none"] /\ rows = [c \in Conns |-> 0] /\ gpReads = {} /\ gpWrites = 0

EncEnter(c) == /\ inEnc[c] = "none" /\ rows[c] < MaxRows
               /\ inEnc' = [inEnc EXCEPT ![c] = MapOf(c)]
               /\ UNCHANGED <<rows, gpReads, gpWrites>>
EncExit(c) == /\ inEnc[c] # "none"
              /\ inEnc' = [inEnc EXCEPT ![c] = "none"] /\ rows' = [rows EXCEPT ![c] = @ + 1]
              /\ UNCHANGED <<gpReads, gpWrites>>
\* startup of a connection: the global map is read (cloned), never written
CloneBegin(c) == c \notin gpReads /\ gpReads' = gpReads \cup {c} /\ UNCHANGED <<inEnc, rows, gpWrites>>
CloneEnd(c) == c \in gpReads /\ gpReads' = gpReads \ {c} /\ UNCHANGED <<inEnc, rows, gpWrites>>

ShNext == \E c \in Conns : EncEnter(c) \/ EncExit(c) \/ CloneBegin(c) \/ CloneEnd(c)
ShSpec == ShInit /\ [][ShNext]_shvars

\* no two connections are ever inside the same type map at once
NoConcurrentMapAccess ==
    \A c1, c2 \in Conns : (c1 # c2 /\ inEnc[c1] # "none" /\ inEnc[c2] # "none") => inEnc[c1] # inEnc[c2]

\* the global parameter map is only ever read
GlobalMapReadOnly == gpWrites = 0
=============================================================================
