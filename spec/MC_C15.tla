------------------------------- MODULE MC_C15 -------------------------------
(***************************************************************************)
(* Scheduler model for concurrent sessions: NC connections, connection c   *)
(* sending a fixed sequence of messages; a message is either plain ("m",    *)
(* "x": the harness waits until the server has reacted) or held ("g": its    *)
(* statement function parks at a gate; "e": the connection is held between   *)
(* encoding a row value and writing it) until released.                      *)
(* Every interleaving of sends and releases is exported as a schedule; the  *)
(* harness fills in concrete sessions that deliberately use the same        *)
(* statement and portal names on every connection.                          *)
(***************************************************************************)
EXTENDS Integers, Sequences, FiniteSets, TLC, Export

CONSTANTS NC, Plans   \* Plans: set of per-connection message-kind sequences

VARIABLES plan, sent, parked, hist
mvars == <<plan, sent, parked, hist>>

\* "m": a Parse/Bind/Execute/Sync group; "g": a query whose statement function parks at a gate;
\* "e": a query whose connection is held right after a row value was encoded; "x": a query with a
\* row that cannot be encoded
PlansQuick == {<<"m", "g", "m">>, <<"x", "e", "m">>, <<"e", "m">>}
PlansThorough == {<<"m", "g", "m">>, <<"g", "m", "e">>, <<"x", "e", "m">>, <<"m", "x">>}

C == 1..NC
MCInit == /\ plan \in [C -> Plans] /\ sent = [c \in C |-> 0] /\ parked = [c \in C |-> FALSE] /\ hist = <<>>

Send(c) == /\ ~parked[c] /\ sent[c] < Len(plan[c])
           /\ sent' = [sent EXCEPT ![c] = @ + 1]
           /\ parked' = [parked EXCEPT ![c] = (plan[c][sent[c] + 1] \in {"g", "e"})]
           /\ hist' = Append(hist, [c |-> c, act |-> "send"])
           /\ UNCHANGED plan
Release(c) == /\ parked[c]
              /\ parked' = [parked EXCEPT ![c] = FALSE]
              /\ hist' = Append(hist, [c |-> c, act |-> "release"])
              /\ UNCHANGED <<plan, sent>>
MCNext == \E c \in C : Send(c) \/ Release(c)
MCSpec == MCInit /\ [][MCNext]_mvars
Finished == \A c \in C : sent[c] = Len(plan[c]) /\ ~parked[c]
\* one schedule per complete interleaving
Cover == (Finished' /\ ~Finished) => ExportRecord([plans |-> plan, order |-> hist'])
=============================================================================
