------------------------------- MODULE PgConn -------------------------------
(***************************************************************************)
(* One client connection of a psql-wire server, at the grain of the       *)
(* library's protocol handlers: startup negotiation, authentication,      *)
(* parameter status, session middlewares, the simple and the extended     *)
(* query protocol, the result-writer (DataWriter) machine, COPY-in, the   *)
(* message-size limit, malformed messages, transport faults.              *)
(*                                                                         *)
(* The client and the user callbacks are the ENVIRONMENT: every client    *)
(* message carries the script of the callbacks it will trigger (parser    *)
(* outcome; per statement its columns and a handler program: a list of    *)
(* DataWriter / CopyReader operations and a return value).  What the      *)
(* LIBRARY must do in response - the messages it emits, the callbacks it  *)
(* invokes and in which order, the values DataWriter calls return - is    *)
(* what the actions below state, as the sequence `emit' of observable     *)
(* events each server step produces.                                       *)
(*                                                                         *)
(* Code bound to: wire.go serve, handshake.go, auth.go, command.go,        *)
(* cache.go, writer.go, row.go, copy.go (CopyReader), error.go.            *)
(***************************************************************************)
EXTENDS PgOps

VARIABLES
    cfg,      \* configuration of this execution
    phase,    \* "startup" "auth" "postauth" "mw" "ready" "closed"
    ssl,      \* "none" | "refused" | "tlsp" (handshake pending) | "tls": SSL negotiation
    mwi,      \* index of the next session middleware to run
    cparams,  \* client parameters (function key -> value)
    inq,      \* client messages sent and not yet consumed by the server
    eof,      \* the client has closed its side
    faulted,  \* the transport has started to fail
    emit,     \* observable events produced by the last server step
    stmts,    \* prepared statements of this connection: name -> statement
    portals,  \* portals of this connection: name -> portal
    skip,     \* discarding until the next Sync (extended-protocol error)
    hq,       \* statements of the running simple Query still to start
    h         \* frame of the running statement function, or NoH

vars == <<cfg, phase, ssl, mwi, cparams, inq, eof, faulted, emit, stmts, portals, skip, hq, h>>

NoH == [on |-> FALSE]

Frame(st, mode, si, params, rfmt) ==
    [on |-> TRUE, st |-> st, pc |-> 1, closed |-> FALSE, written |-> 0,
     mode |-> mode, si |-> si, params |-> params, rfmt |-> rfmt, copy |-> FALSE]

ExtTypes == {"P", "B", "D", "E", "C", "H"}

(***************************************************************************)
(* Configuration record:                                                   *)
(*   auth    "none" | "clear"                                              *)
(*   tls     "nil" | "empty" | "cert"                                      *)
(*   params  configured global parameters, function key -> value           *)
(*   version server version string, "" when not configured                 *)
(*   mw      outcomes of the registered session middlewares, in order      *)
(*   term    "none" | "ok": terminate hook registered?                     *)
(***************************************************************************)
InitWith(c) ==
    /\ cfg = c
    /\ phase = "startup" /\ ssl = "none" /\ mwi = 1 /\ cparams = <<>>
    /\ inq = <<>> /\ eof = FALSE /\ faulted = FALSE /\ emit = <<>>
    /\ stmts = <<>> /\ portals = <<>> /\ skip = FALSE /\ hq = <<>> /\ h = NoH

---------------------------------------------------------------------------
(* Environment: the client.                                                *)

ClientSend(m) ==
    /\ phase # "closed" /\ ~eof
    /\ inq' = Append(inq, m)
    /\ emit' = <<>>
    /\ UNCHANGED <<cfg, phase, ssl, mwi, cparams, eof, faulted, stmts, portals, skip, hq, h>>

ClientEOF ==
    /\ phase # "closed" /\ ~eof
    /\ eof' = TRUE
    /\ emit' = <<>>
    /\ UNCHANGED <<cfg, phase, ssl, mwi, cparams, inq, faulted, stmts, portals, skip, hq, h>>

---------------------------------------------------------------------------
(* Helpers for server steps.                                               *)

Head1 == Head(inq)
Consume == inq' = Tail(inq)
Closed == phase' = "closed"

\* the server is about to read the next message of the given phase
Reading(p) == phase = p /\ ~faulted /\ inq # <<>> /\ ~h.on /\ hq = <<>> /\ ssl # "tlsp"

KvMap(kvs) == [key \in {kvs[i].k : i \in DOMAIN kvs} |->
                  kvs[MaxOf({i \in DOMAIN kvs : kvs[i].k = key})].v]

User == Get(cparams, "user", "")

\* Parameters announced to the client and visible to handlers as server
\* parameters: the configured ones overridden by the built-in ones.
Builtin == [k \in {"server_encoding", "client_encoding", "is_superuser", "session_authorization"}
                \cup (IF cfg.version # "" THEN {"server_version"} ELSE {}) |->
              CASE k = "server_encoding" -> "UTF8"
                [] k = "client_encoding" -> "UTF8"
                [] k = "is_superuser" -> "off"
                [] k = "session_authorization" -> User
                [] k = "server_version" -> cfg.version]
SParams == [k \in DOMAIN cfg.params \cup DOMAIN Builtin |->
              IF k \in DOMAIN Builtin THEN Builtin[k] ELSE cfg.params[k]]

\* What every parser / statement / terminate callback sees through its
\* context: the marker chain of the session middlewares (registration
\* order), the client and server parameters, the remote address (addr) and a
\* type map (tm); its own command context is live while it runs (live) and
\* the context of the previous command has been cancelled (prevdone).
\* A session middleware may hand the connection a context that ends (a session time-out, a kill switch).
\* cfg.ctx = "dead": it has ended before the first command.  The library goes on serving the connection; what
\* depends on the context fails: rows are not written (nothing is emitted for them), COPY-in is not started.
Dead == "ctx" \in DOMAIN cfg /\ cfg.ctx = "dead"
WithCtx(r) == r @@ [mw |-> [j \in 1..Len(cfg.mw) |-> j], cp |-> cparams, sp |-> SParams,
                    addr |-> TRUE, tm |-> TRUE, live |-> ~Dead, prevdone |-> TRUE,
                    \* AuthenticatedUsername(ctx) is the user of the start-up packet, IsSuperUser(ctx) is never true
                    au |-> (IF "user" \in DOMAIN cparams THEN cparams["user"] ELSE ""), su |-> FALSE,
                    \* what the password validator put into the context it returned is there for the whole session
                    authv |-> (IF cfg.auth = "clear" /\ "user" \in DOMAIN cparams THEN cparams["user"] ELSE "")]

EmitOne(alts) == \E e \in alts : emit' = e

---------------------------------------------------------------------------
(* Startup negotiation (handshake.go, wire.go serve).                      *)

\* cfg.auth: "none"; "clear" (ClearTextPassword with the user's validator); "custom-ok" / "custom-fail": a strategy
\* of the user's own (SessionAuthStrategy) that sees the client parameters, and announces AuthenticationOk itself
\* or returns an error - a strategy that fails never yields a session (an ErrorResponse before the close is optional)
AuthCb(kvs) == Cb([name |-> "auth", user |-> Get(KvMap(kvs), "user", ""), db |-> Get(KvMap(kvs), "database", "")])
AfterStartup(kvs) ==
    IF cfg.auth = "none" THEN emit' = <<Rv(MsgAuth(0))>> /\ phase' = "postauth"
    ELSE IF cfg.auth = "custom-ok" THEN emit' = <<AuthCb(kvs), Rv(MsgAuth(0))>> /\ phase' = "postauth"
    ELSE IF cfg.auth = "custom-fail"
    THEN EmitOne({<<AuthCb(kvs), CloseEv>>, <<AuthCb(kvs), Rv(ErrAny), CloseEv>>}) /\ phase' = "closed"
    ELSE emit' = <<Rv(MsgAuth(3))>> /\ phase' = "auth"

DoStartup ==
    /\ Reading("startup") /\ Head1.t = "Startup"
    /\ Consume
    /\ \/ /\ Head1.term
          /\ cparams' = KvMap(Head1.kvs)
          /\ AfterStartup(Head1.kvs)
       \/ \* E10: no final terminator: close ...
          /\ ~Head1.term
          /\ emit' = <<CloseEv>> /\ Closed /\ UNCHANGED cparams
       \/ \* ... or a session whose client parameters are the complete pairs
          /\ ~Head1.term
          /\ cparams' = KvMap(Head1.kvs)
          /\ AfterStartup(Head1.kvs)
    /\ UNCHANGED <<cfg, ssl, mwi, eof, faulted, stmts, portals, skip, hq, h>>

DoSSLRequest ==
    /\ Reading("startup") /\ Head1.t = "SSLRequest"
    /\ Consume
    /\ \/ /\ ssl = "none" /\ cfg.tls \in {"nil", "empty"}
          /\ emit' = <<Rv(MsgSSL("N"))>> /\ ssl' = "refused" /\ UNCHANGED phase
       \/ \* certificates configured: the single byte 'S'; from here on every byte
          \* travels inside the TLS session (ssl = "tlsp" until the handshake is done)
          /\ ssl = "none" /\ cfg.tls = "cert"
          /\ emit' = <<Rv(MsgSSL("S"))>> /\ ssl' = "tlsp" /\ UNCHANGED phase
       \/ \* E13: a second SSLRequest: refused again, or the connection ends
          /\ ssl # "none"
          /\ \/ emit' = <<Rv(MsgSSL("N"))>> /\ UNCHANGED <<ssl, phase>>
             \/ emit' = <<CloseEv>> /\ Closed /\ UNCHANGED ssl
    /\ UNCHANGED <<cfg, mwi, cparams, eof, faulted, stmts, portals, skip, hq, h>>

\* A GSSENCRequest (what libpq sends first with gssencmode=prefer): GSS encryption is not supported. The library
\* ends the connection without an answer; declining with the single byte 'N' (what PostgreSQL does) is not excluded.
\* Either way nothing about a later SSLRequest changes.
DoGSSRequest ==
    /\ Reading("startup") /\ Head1.t = "GSSENC"
    /\ Consume
    /\ \/ emit' = <<CloseEv>> /\ Closed /\ UNCHANGED ssl
       \/ ssl \in {"none", "refused"} /\ emit' = <<Rv(MsgSSL("N"))>> /\ UNCHANGED <<ssl, phase>>
    /\ UNCHANGED <<cfg, mwi, cparams, eof, faulted, stmts, portals, skip, hq, h>>

\* The TLS handshake completes (environment: the client's TLS stack reports it).
TLSDone ==
    /\ ssl = "tlsp" /\ phase = "startup"
    /\ ssl' = "tls" /\ emit' = <<>>
    /\ UNCHANGED <<cfg, phase, mwi, cparams, inq, eof, faulted, stmts, portals, skip, hq, h>>

\* E12: plaintext pushed ahead of the handshake is never interpreted: it is
\* dropped (it sat in the plaintext read buffer) ...
DoStuffedDrop ==
    /\ ssl = "tlsp" /\ phase = "startup" /\ ~faulted /\ inq # <<>> /\ Head1.t = "Stuffed"
    /\ Consume /\ emit' = <<>>
    /\ UNCHANGED <<cfg, phase, ssl, mwi, cparams, eof, faulted, stmts, portals, skip, hq, h>>

\* ... or it wrecks the handshake and the connection ends
TLSAbort ==
    /\ ssl = "tlsp" /\ phase = "startup" /\ ~faulted /\ inq # <<>> /\ Head1.t = "Stuffed"
    /\ Consume /\ emit' = <<CloseEv>> /\ Closed
    /\ UNCHANGED <<cfg, ssl, mwi, cparams, eof, faulted, stmts, portals, skip, hq, h>>

\* A CancelRequest, before or after an SSL negotiation: closed, no reply.
DoCancel ==
    /\ Reading("startup") /\ Head1.t = "Cancel"
    /\ Consume
    /\ emit' = <<CloseEv>> /\ Closed
    /\ UNCHANGED <<cfg, ssl, mwi, cparams, eof, faulted, stmts, portals, skip, hq, h>>

---------------------------------------------------------------------------
(* Authentication (auth.go).  A password message carries the validator's  *)
(* scripted outcome: pw \in {"good", "bad", "err"}.                        *)

ValidateCb(m) == Cb([name |-> "validate", db |-> Get(cparams, "database", ""),
                     user |-> User, pw |-> m.pwd, ret |-> m.pw])

DoPassword ==
    /\ Reading("auth") /\ Head1.t = "p"
    /\ Consume
    /\ \/ /\ Head1.pw = "good"
          /\ emit' = <<ValidateCb(Head1), Rv(MsgAuth(0))>> /\ phase' = "postauth"
       \/ \* wrong password: ErrorResponse class 28, close (a ReadyForQuery
          \* in between is not excluded by the statement)
          /\ Head1.pw = "bad"
          /\ EmitOne({<<ValidateCb(Head1), Rv(ErrClass("28")), CloseEv>>,
                      <<ValidateCb(Head1), Rv(ErrClass("28")), Rv(MsgReady), CloseEv>>})
          /\ Closed
       \/ \* the validator fails: close, an ErrorResponse is optional
          \* "errc": the error carries a SQLSTATE / severity of its own; "gooderr": the validator reports an
          \* error although it found the password to match (a failing audit step, say) - an error is a refusal
          /\ Head1.pw \in {"err", "errc", "gooderr"}
          /\ EmitOne({<<ValidateCb(Head1), CloseEv>>,
                      <<ValidateCb(Head1), Rv(ErrAny), CloseEv>>,
                      <<ValidateCb(Head1), Rv(ErrAny), Rv(MsgReady), CloseEv>>})
          /\ Closed
    /\ UNCHANGED <<cfg, ssl, mwi, cparams, eof, faulted, stmts, portals, skip, hq, h>>

\* Anything other than a well-formed password message: no validator call, no
\* AuthenticationOk, close.
DoNotPassword ==
    /\ Reading("auth") /\ Head1.t # "p"
    /\ Consume
    /\ EmitOne({<<CloseEv>>, <<Rv(ErrAny), CloseEv>>, <<Rv(ErrAny), Rv(MsgReady), CloseEv>>})
    /\ Closed
    /\ UNCHANGED <<cfg, ssl, mwi, cparams, eof, faulted, stmts, portals, skip, hq, h>>

---------------------------------------------------------------------------
(* After authentication: ParameterStatus block, session middlewares, the  *)
(* first ReadyForQuery (handshake.go writeParameters, options.go           *)
(* SessionMiddleware, command.go consumeCommands).                         *)

WriteServerParams ==
    /\ phase = "postauth" /\ ~faulted
    /\ emit' = <<RvSet({MsgParam(k, SParams[k]) : k \in DOMAIN SParams})>>
    /\ phase' = "mw" /\ mwi' = 1
    /\ UNCHANGED <<cfg, ssl, cparams, inq, eof, faulted, stmts, portals, skip, hq, h>>

\* middleware i receives its predecessor's context
MwCb(i) == Cb([name |-> "mw", i |-> i, mw |-> [j \in 1..(i - 1) |-> j],
               cp |-> cparams, sp |-> SParams, addr |-> TRUE, tm |-> TRUE])

Middleware ==
    /\ phase = "mw" /\ ~faulted /\ mwi <= Len(cfg.mw)
    /\ IF cfg.mw[mwi] = "ok"
       THEN emit' = <<MwCb(mwi)>> /\ mwi' = mwi + 1 /\ UNCHANGED phase
       ELSE emit' = <<MwCb(mwi), CloseEv>> /\ Closed /\ UNCHANGED mwi
    /\ UNCHANGED <<cfg, ssl, cparams, inq, eof, faulted, stmts, portals, skip, hq, h>>

FirstReady ==
    /\ phase = "mw" /\ ~faulted /\ mwi > Len(cfg.mw)
    /\ emit' = <<Rv(MsgReady)>>
    /\ phase' = "ready"
    /\ UNCHANGED <<cfg, ssl, mwi, cparams, inq, eof, faulted, stmts, portals, skip, hq, h>>

---------------------------------------------------------------------------
(* The command loop (command.go).                                          *)

ParseCb(q) == Cb(WithCtx([name |-> "parse", q |-> q.id]))

\* Messages are discarded while skipping, up to the next Sync.  A Terminate is
\* not discarded: it ends the connection (C19 quantifies over every command
\* history; the discard rule of C06 is about the messages of the batch).
DoDiscard ==
    /\ Reading("ready") /\ skip /\ Head1.t \notin {"S", "X"}
    /\ Head1.t \notin {"Tiny", "Huge"}
    /\ Consume
    /\ emit' = <<>>
    /\ UNCHANGED <<cfg, phase, ssl, mwi, cparams, eof, faulted, stmts, portals, skip, hq, h>>

\* Simple Query (handleSimpleQuery).
\* a server built without a parse function (NewServer(nil, ...)): Query and Parse are refused, like any failing message
NoParser == "parser" \in DOMAIN cfg /\ cfg.parser = "nil"

DoQuery ==
    /\ Reading("ready") /\ ~skip /\ Head1.t = "Q"
    /\ Consume
    /\ LET q == Head1.q IN
       IF NoParser
       THEN emit' = <<Rv(ErrAny), Rv(MsgReady)>> /\ UNCHANGED hq
       ELSE IF q.parse = "blank"
       THEN emit' = <<Rv(MsgEmpty), Rv(MsgReady)>> /\ UNCHANGED hq
       ELSE IF q.parse = "err"
       THEN emit' = <<ParseCb(q), Rv(ErrRec(q.perr)), Rv(MsgReady)>> /\ UNCHANGED hq
       ELSE IF Len(q.stmts) = 0
       THEN emit' = <<ParseCb(q), Rv(ErrAny), Rv(MsgReady)>> /\ UNCHANGED hq
       ELSE /\ emit' = <<ParseCb(q)>>
            /\ hq' = [i \in DOMAIN q.stmts |-> [st |-> q.stmts[i], si |-> i]]
    /\ UNCHANGED <<cfg, phase, ssl, mwi, cparams, eof, faulted, stmts, portals, skip, h>>

StartCb(st, si, params) ==
    \* wcols: what DataWriter.Columns() answers inside the statement function - the statement's own columns
    Cb(WithCtx([name |-> "stmt.start", def |-> st.id, si |-> si, params |-> params,
                wcols |-> [i \in DOMAIN st.cols |-> st.cols[i].name]]))

\* Start the next statement of a simple Query: RowDescription (text format)
\* when it has columns, then the statement function is invoked.
StartNext ==
    /\ phase = "ready" /\ ~faulted /\ ~h.on /\ hq # <<>>
    /\ LET e == Head(hq) IN
       /\ emit' = (IF Len(e.st.cols) > 0 THEN <<Rv(MsgRowDesc(e.st.cols, <<>>))>> ELSE <<>>)
                    \o <<StartCb(e.st, e.si, <<>>)>>
       /\ h' = Frame(e.st, "simple", e.si, <<>>, <<>>)
    /\ hq' = Tail(hq)
    /\ UNCHANGED <<cfg, phase, ssl, mwi, cparams, inq, eof, faulted, stmts, portals, skip>>

---------------------------------------------------------------------------
(* The running statement function: one step per DataWriter / CopyReader   *)
(* call (writer.go, row.go, copy.go).                                      *)

Running == phase = "ready" /\ ~faulted /\ h.on /\ h.pc <= Len(h.st.prog)
Op == h.st.prog[h.pc]
Adv(f) == [f EXCEPT !.pc = @ + 1]
DwCb(name, ret, written) == Cb([name |-> name, ret |-> ret, written |-> written])

HRow ==
    /\ Running /\ Op.op = "row"
    /\ IF h.closed \/ Len(Op.cells) # Len(h.st.cols) \/ ~RowEncodable(Op.cells, h.rfmt)
          \/ (Dead /\ Len(h.st.cols) > 0)    \* (the context is consulted per value: a row without columns has none)
       THEN \* closed writer, wrong arity, unencodable value: nothing emitted,
            \* the counter does not move, the call fails
            /\ emit' = <<DwCb("dw.row", "err", h.written)>>
            /\ h' = Adv(h)
       ELSE /\ emit' = <<Rv(MsgDataRow(Op.cells, h.rfmt)), DwCb("dw.row", "nil", h.written + 1)>>
            /\ h' = [Adv(h) EXCEPT !.written = @ + 1]
    /\ UNCHANGED <<cfg, phase, ssl, mwi, cparams, inq, eof, faulted, stmts, portals, skip, hq>>

\* a scheduling gate inside the scripted statement function: no effect on the protocol
HGate ==
    /\ Running /\ Op.op = "gate"
    /\ emit' = <<>> /\ h' = Adv(h)
    /\ UNCHANGED <<cfg, phase, ssl, mwi, cparams, inq, eof, faulted, stmts, portals, skip, hq>>

\* In the extended protocol the row values are encoded in the portal's
\* result formats; the cell then names the rendering in that format.
HComplete ==
    /\ Running /\ Op.op = "complete"
    /\ IF h.closed
       THEN emit' = <<DwCb("dw.complete", "err", h.written)>> /\ h' = Adv(h)
       ELSE /\ emit' = <<Rv(MsgComplete(Op.tag)), DwCb("dw.complete", "nil", h.written)>>
            /\ h' = [Adv(h) EXCEPT !.closed = TRUE]
    /\ UNCHANGED <<cfg, phase, ssl, mwi, cparams, inq, eof, faulted, stmts, portals, skip, hq>>

HEmpty ==
    /\ Running /\ Op.op = "empty"
    /\ IF h.closed \/ h.written # 0
       THEN emit' = <<DwCb("dw.empty", "err", h.written)>> /\ h' = Adv(h)
       ELSE emit' = <<DwCb("dw.empty", "nil", h.written)>> /\ h' = [Adv(h) EXCEPT !.closed = TRUE]
    /\ UNCHANGED <<cfg, phase, ssl, mwi, cparams, inq, eof, faulted, stmts, portals, skip, hq>>

HCopyIn ==
    /\ Running /\ Op.op = "copyin"
    /\ IF h.closed \/ Len(h.st.cols) = 0 \/ Dead
       THEN emit' = <<DwCb("dw.copyin", "err", h.written)>> /\ h' = Adv(h)
       ELSE /\ emit' = <<Rv(MsgCopyIn(Op.fmt, Len(h.st.cols))),
                           \* rcols: the columns CopyReader.Columns() answers
                           Cb([name |-> "dw.copyin", ret |-> "nil", written |-> h.written,
                               rcols |-> [i \in DOMAIN h.st.cols |-> h.st.cols[i].name]])>>
            /\ h' = [Adv(h) EXCEPT !.copy = TRUE]
    /\ UNCHANGED <<cfg, phase, ssl, mwi, cparams, inq, eof, faulted, stmts, portals, skip, hq>>

\* CopyReader.Read: consumes the next frontend message.  A read attempted
\* without an open COPY (CopyIn failed, or the stream already ended) is not
\* performed by the scripted handler.
HCopyReadNoop ==
    /\ Running /\ Op.op = "copyread" /\ ~h.copy
    /\ emit' = <<>> /\ h' = Adv(h)
    /\ UNCHANGED <<cfg, phase, ssl, mwi, cparams, inq, eof, faulted, stmts, portals, skip, hq>>

CopyCb(ret, dig) == Cb([name |-> "copy.read", ret |-> ret, dig |-> dig])

\* what a failed read leads to when the handler propagates it (onerr = "ret"):
\* the statement function returns the read's error
Propagates == "onerr" \in DOMAIN Op /\ Op.onerr = "ret"

\* (the error a handler passes on is the reader's: for a message over the size limit it is the message-size
\* error - SQLSTATE 54000, not fatal - like outside COPY)
CopyAbortE(ev, e) ==
    IF Propagates
    THEN /\ h' = NoH
         /\ IF h.mode = "simple"
            THEN emit' = ev \o <<Rv(e), Rv(MsgReady)>> /\ hq' = <<>> /\ UNCHANGED skip
            ELSE emit' = ev \o <<Rv(e)>> /\ skip' = TRUE /\ UNCHANGED hq
    ELSE emit' = ev /\ h' = [Adv(h) EXCEPT !.copy = FALSE] /\ UNCHANGED <<hq, skip>>
CopyAbort(ev) == CopyAbortE(ev, ErrAny)

HCopyRead ==
    /\ Running /\ Op.op = "copyread" /\ h.copy /\ inq # <<>> /\ Head1.t # "Huge"
    /\ Consume
    /\ LET m == Head1 IN
       IF m.t = "d" THEN emit' = <<CopyCb("nil", m.dig)>> /\ h' = Adv(h) /\ UNCHANGED <<hq, skip>>
       ELSE IF m.t \in {"H", "S"} THEN emit' = <<>> /\ h' = h /\ UNCHANGED <<hq, skip>>   \* ignored in COPY mode
       ELSE IF m.t = "c" THEN emit' = <<CopyCb("eof", "")>> /\ h' = [Adv(h) EXCEPT !.copy = FALSE] /\ UNCHANGED <<hq, skip>>
       ELSE \* CopyFail or any non-COPY message: a non-nil, non-EOF error; the
            \* read itself reports nothing to the client - the abort is reported
            \* once, when the statement function returns the error
            CopyAbortE(<<CopyCb("err", "")>>, IF m.t = "Big" THEN ErrTooBig ELSE ErrAny)
    /\ UNCHANGED <<cfg, phase, ssl, mwi, cparams, eof, faulted, stmts, portals>>

\* E7 inside COPY: a message declaring a gigantic length.  Its body is
\* discarded as it arrives (never buffered); the client's stream ends long
\* before 2 GB, and the read then fails.  The declared body is never
\* interpreted as messages.
HCopyReadHuge ==
    /\ Running /\ Op.op = "copyread" /\ h.copy /\ inq # <<>> /\ Head1.t = "Huge" /\ eof
    /\ inq' = <<>> /\ CopyAbort(<<CopyCb("err", "")>>)
    /\ UNCHANGED <<cfg, phase, ssl, mwi, cparams, eof, faulted, stmts, portals>>

\* the client's side ends inside COPY: the read ends the stream or fails
HCopyReadEOF ==
    /\ Running /\ Op.op = "copyread" /\ h.copy /\ inq = <<>> /\ eof
    /\ \/ emit' = <<CopyCb("eof", "")>> /\ h' = [Adv(h) EXCEPT !.copy = FALSE] /\ UNCHANGED <<hq, skip>>
       \/ CopyAbort(<<CopyCb("err", "")>>)
    /\ UNCHANGED <<cfg, phase, ssl, mwi, cparams, inq, eof, faulted, stmts, portals>>

\* The statement function returns.
HReturn ==
    /\ Running /\ Op.op = "ret"
    /\ h' = NoH
    /\ IF h.mode = "simple"
       THEN IF Op.r = "nil"
            THEN /\ EmitOne(
                      \* E5: a handler returning nil without completing: the
                      \* statement's CommandComplete may be supplied or not
                      {IF hq = <<>> THEN <<Rv(MsgReady)>> ELSE <<>>}
                      \cup (IF h.closed THEN {} ELSE
                            {<<Rv([t |-> "C", wf |-> TRUE])>> \o (IF hq = <<>> THEN <<Rv(MsgReady)>> ELSE <<>>)}))
                 /\ UNCHANGED <<hq, skip>>
            ELSE \* a single ErrorResponse, no later statement runs, the cycle ends
                 /\ emit' = <<Rv(ErrRec(Op.err)), Rv(MsgReady)>>
                 /\ hq' = <<>> /\ UNCHANGED skip
       ELSE IF Op.r = "nil"
            THEN emit' = <<>> /\ UNCHANGED <<hq, skip>>
            ELSE emit' = <<Rv(ErrRec(Op.err))>> /\ skip' = TRUE /\ UNCHANGED hq
    /\ UNCHANGED <<cfg, phase, ssl, mwi, cparams, inq, eof, faulted, stmts, portals>>

\* A statement function that panics while it runs under Execute: the library
\* recovers (cache.go Execute) and the message fails like any other - one
\* ErrorResponse, then discarding.  (A panic under a simple Query is not
\* recovered by the library; it is the handler's defect and not modelled.)
HPanic ==
    /\ Running /\ Op.op = "panic" /\ h.mode = "ext"
    /\ h' = NoH /\ emit' = <<Rv(ErrAny)>> /\ skip' = TRUE
    /\ UNCHANGED <<cfg, phase, ssl, mwi, cparams, inq, eof, faulted, stmts, portals, hq>>

---------------------------------------------------------------------------
(* Extended query protocol (handleParse/Bind/Describe/Execute, cache.go).  *)

Put(f, k, v) == [x \in DOMAIN f \cup {k} |-> IF x = k THEN v ELSE f[x]]
Del(f, k) == [x \in DOMAIN f \ {k} |-> f[x]]

\* the parameter types a statement declares: what ParseParameters finds in its text when the handler uses it
\* ("toks"), unless the handler declares nothing at all ("nodeclare": the markers in the text are its own business)
StOids(st) == IF "toks" \in DOMAIN st /\ "nodeclare" \notin DOMAIN st THEN [i \in 1..CountParams(st.toks) |-> 0] ELSE st.oids

ExtFail(e) == emit' = <<Rv(e)>> /\ skip' = TRUE
ExtFailP(pre, e) == emit' = pre \o <<Rv(e)>> /\ skip' = TRUE

\* A server configured with its own statement / portal caches (options
\* Statements, Portals): the library resolves names only through them.  The
\* calls are observable; their order follows from the data they need.
Custom == "cache" \in DOMAIN cfg /\ cfg.cache = "custom"
CC(evs) == IF Custom THEN evs ELSE <<>>
CacheCb(op, key) == Cb([name |-> op, key |-> key])
CacheGet(op, key, hit) == Cb([name |-> op, key |-> key, hit |-> hit])

DoParse ==
    /\ Reading("ready") /\ ~skip /\ Head1.t = "P"
    /\ Consume
    /\ LET q == Head1.q IN
       IF NoParser
       THEN ExtFail(ErrAny) /\ UNCHANGED stmts
       ELSE IF q.parse = "blank"
       THEN \* a Parse whose query text is empty or blank is handed to the parser like any other text (the scripted
            \* parser does not know it: q = -1, and fails); nothing is stored
            emit' = <<Cb(WithCtx([name |-> "parse", q |-> -1])), Rv(ErrAny)>> /\ skip' = TRUE /\ UNCHANGED stmts
       ELSE IF q.parse = "err"
       THEN emit' = <<ParseCb(q), Rv(ErrRec(q.perr))>> /\ skip' = TRUE /\ UNCHANGED stmts
       ELSE IF Len(q.stmts) # 1
       THEN emit' = <<ParseCb(q), Rv(ErrAny)>> /\ skip' = TRUE /\ UNCHANGED stmts
       ELSE IF Custom /\ Head1.name = "xset"
       THEN \* the user's statement cache refuses to store it: the message fails like any other
            emit' = <<ParseCb(q), CacheCb("st.set", Head1.name), Rv(ErrAny)>> /\ skip' = TRUE /\ UNCHANGED stmts
       ELSE /\ emit' = <<ParseCb(q)>> \o CC(<<CacheCb("st.set", Head1.name)>>) \o <<Rv(MsgParseComplete)>>
            /\ stmts' = Put(stmts, Head1.name, q.stmts[1])
            /\ UNCHANGED skip
    /\ UNCHANGED <<cfg, phase, ssl, mwi, cparams, eof, faulted, portals, hq, h>>

\* The parameters of a Bind as the statement function will see them: same
\* count and order, byte-identical (dig), NULL distinguished, tagged by the
\* format rule, and decoding (scan) to the value the client encoded.
Tagged(m) == [i \in DOMAIN m.params |->
                IF m.params[i].null THEN [fmt |-> FormatOf(m.pfmt, i), null |-> TRUE]
                ELSE [fmt |-> FormatOf(m.pfmt, i), null |-> FALSE, dig |-> m.params[i].dig,
                      scan |-> m.params[i].scan]]

DoBind ==
    /\ Reading("ready") /\ ~skip /\ Head1.t = "B"
    /\ Consume
    /\ IF Custom /\ Head1.stmt = "xget"
       THEN \* the user's cache fails (an error, not "unknown"): still one ErrorResponse, not a dropped connection
            ExtFailP(<<CacheGet("st.get", Head1.stmt, FALSE)>>, ErrAny) /\ UNCHANGED portals
       ELSE IF Head1.stmt \notin DOMAIN stmts
       THEN ExtFailP(CC(<<CacheGet("st.get", Head1.stmt, FALSE)>>), ErrAny) /\ UNCHANGED portals
       ELSE IF Custom /\ Head1.portal = "xbind"
       THEN ExtFailP(<<CacheGet("st.get", Head1.stmt, TRUE), CacheCb("po.bind", Head1.portal)>>, ErrAny) /\ UNCHANGED portals
       ELSE /\ emit' = CC(<<CacheGet("st.get", Head1.stmt, TRUE), CacheCb("po.bind", Head1.portal)>>) \o <<Rv(MsgBindComplete)>>
            /\ portals' = Put(portals, Head1.portal,
                              [st |-> stmts[Head1.stmt], params |-> Tagged(Head1), rfmt |-> Head1.rfmt])
            /\ UNCHANGED skip
    /\ UNCHANGED <<cfg, phase, ssl, mwi, cparams, eof, faulted, stmts, hq, h>>

RowDescOrNoData(cols, codes) ==
    IF Len(cols) = 0 THEN Rv(MsgNoData) ELSE Rv(MsgRowDesc(cols, codes))

DoDescribe ==
    /\ Reading("ready") /\ ~skip /\ Head1.t = "D"
    /\ Consume
    /\ IF Custom /\ Head1.name = "xget" /\ Head1.kind \in {"S", "P"}
       THEN ExtFailP(<<CacheGet(IF Head1.kind = "S" THEN "st.get" ELSE "po.get", Head1.name, FALSE)>>, ErrAny)
       ELSE IF Head1.kind = "S" /\ Head1.name \in DOMAIN stmts
       THEN LET st == stmts[Head1.name] IN
            emit' = CC(<<CacheGet("st.get", Head1.name, TRUE)>>) \o <<Rv(MsgParamDesc(StOids(st))), RowDescOrNoData(st.cols, <<>>)>> /\ UNCHANGED skip
       ELSE IF Head1.kind = "P" /\ Head1.name \in DOMAIN portals
       THEN LET p == portals[Head1.name] IN
            emit' = CC(<<CacheGet("po.get", Head1.name, TRUE)>>) \o <<RowDescOrNoData(p.st.cols, p.rfmt)>> /\ UNCHANGED skip
       ELSE IF Head1.kind = "S" THEN ExtFailP(CC(<<CacheGet("st.get", Head1.name, FALSE)>>), ErrAny)
       ELSE IF Head1.kind = "P" THEN ExtFailP(CC(<<CacheGet("po.get", Head1.name, FALSE)>>), ErrAny)
       ELSE ExtFail(ErrAny)
    /\ UNCHANGED <<cfg, phase, ssl, mwi, cparams, eof, faulted, stmts, portals, hq, h>>

DoExecute ==
    /\ Reading("ready") /\ ~skip /\ Head1.t = "E"
    /\ Consume
    /\ IF Head1.portal \notin DOMAIN portals
       THEN ExtFailP(CC(<<CacheCb("po.exec", Head1.portal)>>), ErrAny) /\ UNCHANGED h
       ELSE LET p == portals[Head1.portal] IN
            /\ emit' = CC(<<CacheCb("po.exec", Head1.portal)>>) \o <<StartCb(p.st, 1, p.params)>>
            /\ h' = Frame(p.st, "ext", 1, p.params, p.rfmt)
            /\ UNCHANGED skip
    /\ UNCHANGED <<cfg, phase, ssl, mwi, cparams, eof, faulted, stmts, portals, hq>>

\* Close removes the name (unknown names are not an error, E17).
DoClose ==
    /\ Reading("ready") /\ ~skip /\ Head1.t = "C"
    /\ Consume
    /\ IF Head1.kind = "S"
       THEN emit' = CC(<<CacheCb("st.close", Head1.name)>>) \o <<Rv(MsgCloseComplete)>> /\ stmts' = Del(stmts, Head1.name) /\ UNCHANGED <<portals, skip>>
       ELSE IF Head1.kind = "P"
       THEN emit' = CC(<<CacheCb("po.close", Head1.name)>>) \o <<Rv(MsgCloseComplete)>> /\ portals' = Del(portals, Head1.name) /\ UNCHANGED <<stmts, skip>>
       ELSE ExtFail(ErrAny) /\ UNCHANGED <<stmts, portals>>
    /\ UNCHANGED <<cfg, phase, ssl, mwi, cparams, eof, faulted, hq, h>>

DoFlush ==
    /\ Reading("ready") /\ ~skip /\ Head1.t = "H"
    /\ Consume
    /\ emit' = <<>>
    /\ UNCHANGED <<cfg, phase, ssl, mwi, cparams, eof, faulted, stmts, portals, skip, hq, h>>

\* Sync: exactly one ReadyForQuery, and discarding ends.
DoSync ==
    /\ Reading("ready") /\ Head1.t = "S"
    /\ Consume
    /\ emit' = <<Rv(MsgReady)>>
    /\ skip' = FALSE
    /\ UNCHANGED <<cfg, phase, ssl, mwi, cparams, eof, faulted, stmts, portals, hq, h>>

\* COPY messages outside COPY mode are ignored without reply.
DoStrayCopy ==
    /\ Reading("ready") /\ ~skip /\ Head1.t \in {"d", "c", "f"}
    /\ Consume
    /\ emit' = <<>>
    /\ UNCHANGED <<cfg, phase, ssl, mwi, cparams, eof, faulted, stmts, portals, skip, hq, h>>

TermCb == Cb(WithCtx([name |-> "terminate"]))

\* Terminate: the hook runs exactly once and the connection is closed - also
\* while discarding.
DoTerminate ==
    /\ Reading("ready") /\ Head1.t = "X"
    /\ Consume
    /\ emit' = (IF cfg.term = "none" THEN <<>> ELSE <<TermCb>>) \o <<CloseEv>>
    /\ Closed
    /\ UNCHANGED <<cfg, ssl, mwi, cparams, eof, faulted, stmts, portals, skip, hq, h>>

\* E1: an unknown message type outside a batch: ErrorResponse, then either
\* the cycle ends (ReadyForQuery) or the server discards until Sync.
DoUnknown ==
    /\ Reading("ready") /\ ~skip /\ Head1.t \in {"U", "p"}   \* "p": a password message outside authentication
    /\ Consume
    /\ \/ emit' = <<Rv(ErrAny), Rv(MsgReady)>> /\ UNCHANGED skip
       \/ emit' = <<Rv(ErrAny)>> /\ skip' = TRUE
    /\ UNCHANGED <<cfg, phase, ssl, mwi, cparams, eof, faulted, stmts, portals, hq, h>>

\* A message whose declared body exceeds the limit: skipped in full, one
\* non-fatal ErrorResponse of class 54000.  An extended-protocol message
\* fails like any other (discard until Sync); a simple Query ends its cycle;
\* other types: either (E1).  While discarding it is discarded.
DoBig ==
    /\ Reading("ready") /\ ~skip /\ Head1.t = "Big"
    /\ Consume
    /\ IF Head1.ty \in ExtTypes
       THEN emit' = <<Rv(ErrTooBig)>> /\ skip' = TRUE
       ELSE IF Head1.ty \in {"Q", "S"}
       THEN emit' = <<Rv(ErrTooBig), Rv(MsgReady)>> /\ UNCHANGED skip
       ELSE \/ emit' = <<Rv(ErrTooBig), Rv(MsgReady)>> /\ UNCHANGED skip
            \/ emit' = <<Rv(ErrTooBig)>> /\ skip' = TRUE
    /\ UNCHANGED <<cfg, phase, ssl, mwi, cparams, eof, faulted, stmts, portals, hq, h>>

\* A message declaring far more than the client ever sends (up to 2^32-1):
\* the server skips what arrives, buffering nothing, and can only wait; the
\* session resumes only if the declared bytes do arrive.
DoHuge ==
    /\ Reading("ready") /\ Head1.t = "Huge"
    /\ Consume
    /\ emit' = <<>> /\ phase' = "slurp"
    /\ UNCHANGED <<cfg, ssl, mwi, cparams, eof, faulted, stmts, portals, skip, hq, h>>

\* E8: a declared length below the 4-byte minimum: rejected - an error and
\* the session continues, or the connection ends.  Never a read.
DoTiny ==
    /\ Reading("ready") /\ Head1.t = "Tiny"
    /\ Consume
    /\ \/ emit' = <<Rv(ErrAny), Rv(MsgReady)>> /\ UNCHANGED <<skip, phase>>
       \/ emit' = <<Rv(ErrAny)>> /\ skip' = TRUE /\ UNCHANGED phase
       \/ skip /\ emit' = <<>> /\ UNCHANGED <<skip, phase>>
       \/ emit' = <<CloseEv>> /\ Closed /\ UNCHANGED skip
       \/ emit' = <<Rv(ErrAny), CloseEv>> /\ Closed /\ UNCHANGED skip
    /\ UNCHANGED <<cfg, ssl, mwi, cparams, eof, faulted, stmts, portals, hq, h>>

\* E14: a well-framed message whose body does not parse under its type
\* (missing terminator, short field, count exceeding the body): no callback;
\* the connection ends or an error is reported and the session continues.
DoMalformed ==
    /\ Reading("ready") /\ ~skip /\ Head1.t = "Bad"
    /\ Consume
    /\ \/ Head1.ty \notin {"d", "c", "f"} /\
          \/ emit' = <<CloseEv>> /\ Closed /\ UNCHANGED skip
          \/ emit' = <<Rv(ErrAny), CloseEv>> /\ Closed /\ UNCHANGED skip
          \/ emit' = <<Rv(ErrAny), Rv(MsgReady), CloseEv>> /\ Closed /\ UNCHANGED skip
          \/ emit' = <<Rv(ErrAny), Rv(MsgReady)>> /\ UNCHANGED <<skip, phase>>
          \/ emit' = <<Rv(ErrAny)>> /\ skip' = TRUE /\ UNCHANGED phase
       \/ \* a COPY message outside COPY mode is ignored whatever its body (C13): nothing else
          \* is allowed for it (tightened after the ninth round, sa9-C13-1)
          Head1.ty \in {"d", "c", "f"} /\ emit' = <<>> /\ UNCHANGED <<skip, phase>>
    /\ UNCHANGED <<cfg, ssl, mwi, cparams, eof, faulted, stmts, portals, hq, h>>

\* Oversized or malformed input before the session exists ends the
\* connection (an ErrorResponse before is optional, E9).
DoStartupReject ==
    /\ \/ Reading("startup") /\ Head1.t \in {"Big", "Tiny", "Bad"}
       \/ Reading("auth") /\ Head1.t \in {"Big", "Tiny", "Bad"} /\ FALSE \* covered by DoNotPassword
    /\ Consume
    /\ EmitOne({<<CloseEv>>, <<Rv(ErrAny), CloseEv>>, <<Rv(ErrAny), Rv(MsgReady), CloseEv>>})
    /\ Closed
    /\ UNCHANGED <<cfg, ssl, mwi, cparams, eof, faulted, stmts, portals, skip, hq, h>>

\* The client's side is closed and everything it sent has been consumed.
ServerEOF ==
    /\ phase \in {"startup", "auth", "ready", "slurp"} /\ ~faulted
    /\ inq = <<>> /\ eof /\ ~h.on /\ hq = <<>>
    /\ emit' = <<CloseEv>> /\ Closed
    /\ UNCHANGED <<cfg, ssl, mwi, cparams, inq, eof, faulted, stmts, portals, skip, hq, h>>

---------------------------------------------------------------------------
(* The public helper ErrorCode called directly (auth strategies do): one    *)
(* ErrorResponse - an internal fatal error when the error is nil - and the  *)
(* ReadyForQuery that ends the cycle.  Independent of the connection state. *)

ApiErrorCode(isnil, e) ==
    /\ emit' = <<Rv(IF isnil THEN ErrRecNil ELSE ErrRec(e)), Rv(MsgReady)>>
    /\ UNCHANGED <<cfg, phase, ssl, mwi, cparams, inq, eof, faulted, stmts, portals, skip, hq, h>>

---------------------------------------------------------------------------

Preamble == DoStartup \/ DoSSLRequest \/ DoGSSRequest \/ DoStuffedDrop \/ TLSAbort \/ DoCancel \/ DoStartupReject
            \/ DoPassword \/ DoNotPassword
            \/ WriteServerParams \/ Middleware \/ FirstReady

Handler == HGate \/ HRow \/ HComplete \/ HEmpty \/ HCopyIn \/ HCopyReadNoop \/ HCopyRead \/ HCopyReadHuge \/ HCopyReadEOF \/ HReturn \/ HPanic

Command == DoDiscard \/ DoQuery \/ StartNext \/ DoParse \/ DoBind \/ DoDescribe \/ DoExecute
           \/ DoClose \/ DoFlush \/ DoSync \/ DoStrayCopy \/ DoTerminate
           \/ DoUnknown \/ DoBig \/ DoHuge \/ DoTiny \/ DoMalformed

ServerStep == Preamble \/ Command \/ Handler \/ ServerEOF

---------------------------------------------------------------------------
(* Invariants of the connection machine (checked in every bounded model    *)
(* and in every state of every validated execution).                       *)

TypeOK ==
    /\ phase \in {"startup", "auth", "postauth", "mw", "ready", "slurp", "closed"}
    /\ ssl \in {"none", "refused", "tlsp", "tls"}
    /\ skip \in BOOLEAN /\ eof \in BOOLEAN /\ faulted \in BOOLEAN
    /\ h.on \in BOOLEAN

\* a handler runs only inside a session, and never while discarding started
HandlerOnlyInSession == (h.on \/ hq # <<>>) => phase \in {"ready", "closed"}

=============================================================================
