------------------------------- MODULE MC_C12 -------------------------------
(***************************************************************************)
(* Bounded model for startup negotiation: every startup packet with up to  *)
(* MaxKvs key/value pairs over a small key pool (duplicates, empty values, *)
(* missing terminator), every configured global-parameter map of a small   *)
(* family (empty, plain, colliding with the built-in keys), version set or *)
(* not, authentication on or off, a refused SSL negotiation before or not, *)
(* a CancelRequest at every stage; then one query, whose callbacks report   *)
(* the client and server parameters they see.                               *)
(***************************************************************************)
EXTENDS PgConn, Export

CONSTANTS MaxKvs

VARIABLES hist
mcvars == <<vars, hist>>

ParamMaps == {<<>>, [a |-> "1"], [server_encoding |-> "LATIN1", b |-> ""],
              [session_authorization |-> "root", is_superuser |-> "on", server_version |-> "9"]}

Cfgs == {[auth |-> a, tls |-> "nil", params |-> p, version |-> v, mw |-> <<"ok">>, term |-> "none", limit |-> 8192] :
            a \in {"none", "clear"}, p \in ParamMaps, v \in {"", "15.2"}}
        \cup {[auth |-> "none", tls |-> "cert", params |-> [a |-> "1"], version |-> "", mw |-> <<"ok">>, term |-> "none", limit |-> 8192]}

Keys == {"user", "database", "k"}
Vals == {"x", ""}
KvLists == UNION {[1..n -> {[k |-> k, v |-> v] : k \in Keys, v \in Vals}] : n \in 0..MaxKvs}

Done == [op |-> "complete", tag |-> "OK"]
RetNil == [op |-> "ret", r |-> "nil"]
Q1 == [id |-> 1, parse |-> "ok", stmts |-> <<[id |-> 1, cols |-> <<>>, oids |-> <<>>, prog |-> <<Done, RetNil>>]>>]

Quiet == inq = <<>> /\ ~ENABLED ServerStep

MCInit == (\E c \in Cfgs : InitWith(c)) /\ hist = <<>>

Push(m) == ClientSend(m) /\ hist' = Append(hist, [k |-> "send", m |-> m])

MCSend ==
    /\ Quiet /\ phase # "closed"
    /\ \/ /\ phase = "startup" /\ ssl = "none" /\ Push([t |-> "SSLRequest", stuffed |-> FALSE])
       \/ /\ phase = "startup" /\ ssl # "tlsp" /\ Push([t |-> "Cancel"])      \* before or after an SSL negotiation ('N', or inside TLS)
       \/ /\ phase = "startup" /\ ssl # "tlsp" /\ (cfg.tls # "cert" \/ ssl = "tls")
          /\ \E kvs \in (IF cfg.tls = "cert" THEN {<<[k |-> "user", v |-> "x"]>>} ELSE KvLists), tm \in BOOLEAN :
                Push([t |-> "Startup", term |-> tm, kvs |-> kvs])
       \/ /\ phase = "auth" /\ Push([t |-> "p", pw |-> "good", pwd |-> "good"])
       \/ /\ phase = "ready" /\ Len(SelectSeq(hist, LAMBDA e : e.k = "send" /\ e.m.t = "Q")) = 0 /\ Push([t |-> "Q", q |-> Q1])

MCTls == Quiet /\ TLSDone /\ hist' = Append(hist, [k |-> "tls"])
MCServer == ServerStep /\ UNCHANGED hist
MCNext == MCSend \/ MCTls \/ MCServer
MCSpec == MCInit /\ [][MCNext]_mcvars
View == vars
Cover == (hist' # hist) => ExportRecord([cfg |-> cfg, steps |-> hist'])

---------------------------------------------------------------------------
(* C12 on the model.                                                       *)

\* exactly one ParameterStatus per key: the configured parameters plus the
\* built-in ones (which override configured keys of the same name)
ParamBlock ==
    \A i \in DOMAIN emit :
        emit[i].k = "recvset" =>
            LET ms == emit[i].ms IN
            /\ {m.key : m \in ms} = DOMAIN cfg.params \cup {"server_encoding", "client_encoding", "is_superuser",
                                                            "session_authorization"}
                                      \cup (IF cfg.version # "" THEN {"server_version"} ELSE {})
            /\ Cardinality(ms) = Cardinality({m.key : m \in ms})
            /\ \A m \in ms : m.key \in {"server_encoding", "client_encoding"} => m.val = "UTF8"
            /\ \A m \in ms : m.key = "session_authorization" => m.val = Get(cparams, "user", "")
            /\ \A m \in ms : (m.key = "server_version" /\ cfg.version # "") => m.val = cfg.version

\* the configuration (and with it the user's global map) never changes
ConfigImmutable == [][cfg' = cfg]_mcvars

\* a CancelRequest is closed without reply or callback
CancelSilent ==
    [][(Reading("startup") /\ Head1.t = "Cancel") => emit' = <<CloseEv>>]_mcvars

=============================================================================
