------------------------------- MODULE PgOps -------------------------------
(***************************************************************************)
(* Pure operators shared by every layer of the psql-wire specification:   *)
(* observable-event constructors, expected backend-message records, the   *)
(* format-code rule, error flattening, placeholder counting.              *)
(*                                                                         *)
(* Code bound to: command.go readParameters/readColumnTypes, row.go,      *)
(* error.go, errors/*, options.go ParseParameters.                        *)
(***************************************************************************)
EXTENDS Integers, Sequences, FiniteSets, TLC

Range(s) == {s[i] : i \in DOMAIN s}
Get(r, f, d) == IF f \in DOMAIN r THEN r[f] ELSE d
MinOf(S) == CHOOSE x \in S : \A y \in S : x <= y
MaxOf(S) == CHOOSE x \in S : \A y \in S : x >= y

(***************************************************************************)
(* Observable events.  "recv": a backend message observed by the client;  *)
(* "cb": a user callback (or a DataWriter/CopyReader call made by one)     *)
(* observed on the connection goroutine; "close": the server closed the    *)
(* connection.  "recvset": a block of messages whose order is unspecified. *)
(***************************************************************************)
Rv(m)    == [k |-> "recv", m |-> m]
\* every callback also reports whether everything the library handed to
\* callbacks so far (and the harness retained) still has its content: always
Cb(c)    == [k |-> "cb", c |-> c @@ [intact |-> TRUE]]
CloseEv  == [k |-> "close"]
RvSet(S) == [k |-> "recvset", ms |-> S]

(***************************************************************************)
(* A record observed in a trace matches the expected record when they      *)
(* agree on every field both carry.  The (trusted) projection of a         *)
(* property decides which fields are carried; the specification always     *)
(* states everything it knows.                                             *)
(***************************************************************************)
RecMatches(exp, obs) == \A f \in (DOMAIN exp) \cap (DOMAIN obs) : exp[f] = obs[f]

(***************************************************************************)
(* Format-code rule of Bind (parameters and result columns alike):        *)
(* no codes: text; one code: applies to all; n codes: positional.         *)
(***************************************************************************)
FormatOf(codes, i) ==
    IF Len(codes) = 0 THEN 0
    ELSE IF Len(codes) = 1 THEN codes[1]
    ELSE IF i <= Len(codes) THEN codes[i] ELSE codes[1]

Formats(codes, n) == [i \in 1..n |-> FormatOf(codes, i)]

(***************************************************************************)
(* Backend message records (what the strict decoder reports, in full).    *)
(***************************************************************************)
MsgAuth(code)      == [t |-> "R", wf |-> TRUE, code |-> code]
MsgParam(k, v)     == [t |-> "S", wf |-> TRUE, key |-> k, val |-> v]
MsgReady           == [t |-> "Z", wf |-> TRUE, st |-> "I"]
MsgEmpty           == [t |-> "I", wf |-> TRUE]
MsgParseComplete   == [t |-> "1", wf |-> TRUE]
MsgBindComplete    == [t |-> "2", wf |-> TRUE]
MsgCloseComplete   == [t |-> "3", wf |-> TRUE]
MsgNoData          == [t |-> "n", wf |-> TRUE]
MsgComplete(tag)   == [t |-> "C", wf |-> TRUE, tag |-> tag]
MsgSSL(b)          == [t |-> "ssl", b |-> b]

\* cols: sequence of [name, oid]; codes: result-format codes
MsgRowDesc(cols, codes) ==
    [t |-> "T", wf |-> TRUE, n |-> Len(cols),
     names |-> [i \in DOMAIN cols |-> cols[i].name],
     oids  |-> [i \in DOMAIN cols |-> cols[i].oid],
     fmts  |-> Formats(codes, Len(cols)),
     \* table and attribute numbers as the handler's column definitions give them (the scripted handlers leave
     \* them unset): the library neither invents nor remembers them
     tables |-> [i \in DOMAIN cols |-> 0], attrs |-> [i \in DOMAIN cols |-> 0]]

MsgParamDesc(oids) == [t |-> "t", wf |-> TRUE, n |-> Len(oids), oids |-> oids]

MsgCopyIn(fmt, n) == [t |-> "G", wf |-> TRUE, fmt |-> fmt, n |-> n, fmts |-> [i \in 1..n |-> fmt]]

(***************************************************************************)
(* Row cells.  A cell written by a handler is                              *)
(*   [c |-> "null", nk |-> kind]   SQL NULL (untyped nil, nil pointer,     *)
(*                                 invalid nullable value)                 *)
(*   [c |-> "empty", val |-> v]    non-NULL value whose encoding is empty  *)
(*   [c |-> "v", val |-> v]        any other value, v its canonical text   *)
(*   [c |-> "bad"]                 a value no codec accepts                *)
(* and arrives as  [null |-> TRUE]  (length -1, no payload) or             *)
(* [null |-> FALSE, empty |-> (length = 0), val |-> canonical text decoded *)
(* by an independent decoder in the announced format, enc |-> the format    *)
(* the field was actually found encoded in].                               *)
(***************************************************************************)
CellOut(c, fmt) == IF c.c = "null" THEN [null |-> TRUE]
                   ELSE [null |-> FALSE, empty |-> (c.c = "empty"), val |-> c.val, enc |-> fmt]

\* codes: the result-format codes in force (none in the simple protocol)
MsgDataRow(cells, codes) == [t |-> "D", wf |-> TRUE, n |-> Len(cells),
                             cells |-> [i \in DOMAIN cells |-> CellOut(cells[i], FormatOf(codes, i))]]

\* "bad": no encoding at all; "tonly": a value that has a text rendering only (a
\* string handed over for an integer column): the row is refused when that
\* column is to be sent in binary - never sent in a format other than announced
RowEncodable(cells, codes) ==
    \A i \in DOMAIN cells : cells[i].c # "bad" /\ (cells[i].c = "tonly" => FormatOf(codes, i) = 0)

(***************************************************************************)
(* Errors.  An error value is [base |-> text, layers |-> <<l1, ...>>],    *)
(* layers outermost first, each one of                                     *)
(*   [d |-> "code"|"sev"|"hint"|"detail"|"cons"|"wrap", v |-> text]        *)
(*   [d |-> "src", file |-> f, line |-> decimal text, fn |-> f]            *)
(* Flatten: the outermost value of each decoration wins; the message is    *)
(* the error text, i.e. the wrap prefixes (outermost first) and the base.  *)
(***************************************************************************)
LayerIdx(layers, d) == {i \in DOMAIN layers : layers[i].d = d}
FirstV(layers, d, default) ==
    IF LayerIdx(layers, d) = {} THEN default ELSE layers[MinOf(LayerIdx(layers, d))].v
FirstSrc(layers) ==
    IF LayerIdx(layers, "src") = {} THEN [file |-> "", line |-> "", fn |-> "", has |-> FALSE]
    ELSE LET s == layers[MinOf(LayerIdx(layers, "src"))]
         IN [file |-> s.file, line |-> s.line, fn |-> s.fn, has |-> TRUE]

RECURSIVE ErrText(_, _, _)
ErrText(layers, i, base) ==
    IF i > Len(layers) THEN base
    ELSE IF layers[i].d = "wrap" THEN layers[i].v \o ": " \o ErrText(layers, i + 1, base)
    ELSE ErrText(layers, i + 1, base)

\* The ErrorResponse for a non-nil error built with the package's decorators.
ErrRec(e) ==
    LET s == FirstSrc(e.layers) IN
    [t |-> "E", wf |-> TRUE, dup |-> FALSE,
     sev    |-> FirstV(e.layers, "sev", "ERROR"),
     code   |-> FirstV(e.layers, "code", "XXUUU"),   \* codes.Uncategorized
     msg    |-> ErrText(e.layers, 1, e.base),
     hint   |-> FirstV(e.layers, "hint", ""),
     detail |-> FirstV(e.layers, "detail", ""),
     cons   |-> FirstV(e.layers, "cons", ""),
     file   |-> s.file, line |-> s.line, fn |-> s.fn,
     \* a source location is sent as a whole (all three fields, empty or not) exactly when one was set; the
     \* message field is always there, whatever the text
     src    |-> IF s.has THEN "all" ELSE "none", hasmsg |-> TRUE]

\* The ErrorResponse for a nil error: an internal fatal error.
ErrRecNil == [t |-> "E", wf |-> TRUE, dup |-> FALSE, sev |-> "FATAL", code |-> "XX000",
              hint |-> "", detail |-> "", cons |-> "", file |-> "", line |-> "", fn |-> ""]

\* An ErrorResponse generated by the library itself: only structure is fixed.
ErrAny == [t |-> "E", wf |-> TRUE, dup |-> FALSE]
\* ... with a prescribed SQLSTATE
ErrCode(code) == [t |-> "E", wf |-> TRUE, dup |-> FALSE, code |-> code]
\* ... with a prescribed SQLSTATE class (first two characters), see "cls"
ErrClass(cls) == [t |-> "E", wf |-> TRUE, dup |-> FALSE, cls |-> cls]
\* the message-size error: class 54000 and a non-fatal severity
ErrTooBig == [t |-> "E", wf |-> TRUE, dup |-> FALSE, code |-> "54000", fatal |-> FALSE]

(***************************************************************************)
(* The grammar of backend messages, over the structural facts the strict   *)
(* decoder reports for one framed message (the frame itself - type byte,   *)
(* length = 4 + body - is what made it a message):                         *)
(*   known   the type byte is a backend message type                       *)
(*   parsed  every fixed-size field and NUL-terminated string was there    *)
(*   decl / items  the declared count and the items present (-1: no count) *)
(*   trail   bytes left after the last item                                *)
(*   ErrorResponse: term (closed by a zero byte), dup (a field code        *)
(*   twice), mand (severity, SQLSTATE and message present)                 *)
(***************************************************************************)
GrammarOK(m) ==
    IF m.t = "ssl" THEN m.b \in {"S", "N"}
    ELSE /\ m.t # "?"                      \* a partial frame or an impossible length
         /\ m.known /\ m.parsed /\ m.trail = 0
         /\ m.decl = m.items
         /\ (m.t \in {"E", "N"} => m.term /\ ~m.dup /\ m.mand)
         /\ (m.t = "Z" => m.st \in {"I", "T", "E"})

(***************************************************************************)
(* Placeholder counting (ParseParameters).  A query is a sequence of       *)
(* tokens [k |-> "text"], [k |-> "q"] (a "?" marker) or                    *)
(* [k |-> "d", n |-> index] (a "$n" marker; n = -1 stands for an index     *)
(* beyond the 65535 protocol limit, of any magnitude).                     *)
(***************************************************************************)
DollarIdx(toks) == {toks[i].n : i \in {j \in DOMAIN toks : toks[j].k = "d"}}
QCount(toks) == Cardinality({i \in DOMAIN toks : toks[i].k = "q"})
HasBeyond(toks) == -1 \in DollarIdx(toks)
HasMixed(toks) == DollarIdx(toks) # {} /\ QCount(toks) > 0
\* Defined for queries that are purely $n-style (all indexes within the
\* limit) or purely ?-style.
CountParams(toks) ==
    IF DollarIdx(toks) # {} THEN MaxOf(DollarIdx(toks) \cup {0}) ELSE QCount(toks)

=============================================================================
