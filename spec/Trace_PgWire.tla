---------------------------- MODULE Trace_PgWire ----------------------------
(***************************************************************************)
(* C02 on recorded executions: whatever the client and the handlers did,   *)
(* the server's output - framed and decoded by the strict decoder - must   *)
(* satisfy the backend grammar message by message (PgOps.GrammarOK), with   *)
(* nothing left over when the connection ends.  Which messages are sent is  *)
(* not this property's business (other properties judge that), so every     *)
(* other event is skipped.                                                  *)
(***************************************************************************)
EXTENDS PgOps, Json
Trace == ndJsonDeserialize("trace.ndjson")
VARIABLES l, nmsg
Ev == Trace[l]
More == l <= Len(Trace)
TInit == l = 1 /\ nmsg = 0
TRecv == More /\ Ev.k = "recv" /\ GrammarOK(Ev.m) /\ l' = l + 1 /\ nmsg' = nmsg + 1
TOther == More /\ Ev.k \notin {"recv", "crash", "wedged"} /\ l' = l + 1 /\ UNCHANGED nmsg
TNext == TRecv \/ TOther
TSpec == TInit /\ [][TNext]_<<l, nmsg>>
ASSUME TLCSet(1, 0)
HighWater == IF l > TLCGet(1) THEN TLCSet(1, l) ELSE TRUE
Accepted ==
    IF TLCGet(1) = Len(Trace) + 1 THEN TRUE
    ELSE /\ PrintT(<<"REJECTED at line", TLCGet(1), "of", Len(Trace)>>)
         /\ PrintT(<<"event", Trace[TLCGet(1)]>>)
         /\ PrintT(<<"state", "-">>)
         /\ FALSE
=============================================================================
