---------------------------- MODULE Trace_PgConn ----------------------------
(***************************************************************************)
(* Trace validation: is every execution recorded from the real server a    *)
(* behaviour of PgConn?  The file trace.ndjson holds a concatenation of     *)
(* executions, each opened by a "cfg" event.  Client steps (send, eof,      *)
(* fault) are logged and drive the environment actions; server steps are    *)
(* NOT logged - TLC infers them (silent steps, l unchanged) - and what they *)
(* emit (`pend') must be matched, in order, by the recorded observations    *)
(* (recv, cb, close).  An "idle" event (the server blocked reading with     *)
(* nothing left to read) is accepted only when no server step is enabled    *)
(* and nothing is owed: replies are delivered without waiting for input.    *)
(*                                                                          *)
(* Acceptance: the high-water mark of l reaches Len(Trace)+1               *)
(* (register 1, POSTCONDITION Accepted; run with -workers 1).               *)
(***************************************************************************)
EXTENDS PgConn, Json

Trace == ndJsonDeserialize("trace.ndjson")

VARIABLES l,     \* next line of the trace
          pend   \* events the server has produced and the trace must show next

tvars == <<vars, l, pend>>

Ev == Trace[l]
More == l <= Len(Trace)

TInit ==
    /\ Trace[1].k = "cfg"
    /\ InitWith(Trace[1].c)
    /\ l = 2 /\ pend = <<>>

\* next recorded execution
TReset ==
    /\ More /\ Ev.k = "cfg" /\ pend = <<>>
    /\ cfg' = Ev.c
    /\ phase' = "startup" /\ ssl' = "none" /\ mwi' = 1 /\ cparams' = <<>>
    /\ inq' = <<>> /\ eof' = FALSE /\ faulted' = FALSE /\ emit' = <<>>
    /\ stmts' = <<>> /\ portals' = <<>> /\ skip' = FALSE /\ hq' = <<>> /\ h' = NoH
    /\ l' = l + 1 /\ UNCHANGED pend

TSend ==
    /\ More /\ Ev.k = "send" /\ phase # "closed"
    /\ ClientSend(Ev.m)
    /\ l' = l + 1 /\ UNCHANGED pend

TEof ==
    /\ More /\ Ev.k = "eof" /\ phase # "closed"
    /\ ClientEOF
    /\ l' = l + 1 /\ UNCHANGED pend

\* client activity racing with the server closing the connection
TLate ==
    /\ More /\ Ev.k \in {"send", "eof"} /\ phase = "closed"
    /\ l' = l + 1 /\ UNCHANGED <<vars, pend>>

\* Preamble rule: a property that does not judge startup, authentication and
\* the parameter block sees them as one event (the projection emits it only
\* when the first ReadyForQuery was reached).
TPreamble ==
    /\ More /\ Ev.k = "preamble" /\ phase = "startup" /\ inq = <<>> /\ pend = <<>>
    /\ cparams' = KvMap(Ev.m.kvs)
    /\ phase' = "ready" /\ mwi' = Len(cfg.mw) + 1 /\ emit' = <<>>
    /\ l' = l + 1
    /\ UNCHANGED <<cfg, ssl, inq, eof, faulted, stmts, portals, skip, hq, h, pend>>

\* a direct call of the ErrorCode helper made by the harness
TApi ==
    /\ More /\ Ev.k = "x-errorcode" /\ pend = <<>>
    /\ ApiErrorCode(Ev.isnil, Ev.err)
    /\ pend' = emit'
    /\ l' = l + 1

\* the user's global parameter map as it is after the run: never modified
TGlobal ==
    /\ More /\ Ev.k = "x-global" /\ pend = <<>>
    /\ Ev.m = cfg.params
    /\ ("tlsok" \in DOMAIN Ev => Ev.tlsok)      \* nor has the TLS configuration the user supplied been written to
    /\ l' = l + 1 /\ UNCHANGED <<vars, pend>>

\* a direct call of ParseParameters made by the harness: all placeholders of
\* unspecified type; their number is the highest $n index / the number of ?
\* markers; with indexes beyond the protocol limit (or mixed styles, E20) only
\* boundedness is required
TParseParams ==
    /\ More /\ Ev.k = "x-parseparams"
    /\ Ev.allzero
    /\ IF HasMixed(Ev.toks)
       THEN Ev.n \in 0..65535
       ELSE IF HasBeyond(Ev.toks)
       THEN \* E20: an index beyond the limit is left out of account, or taken for the limit - nothing else
            Ev.n \in {MaxOf((DollarIdx(Ev.toks) \ {-1}) \cup {0}), 65535}
       ELSE Ev.n = CountParams(Ev.toks)
    /\ l' = l + 1 /\ UNCHANGED <<vars, pend>>

\* C03: the same byte stream delivered under another segmentation: the digest
\* of the whole transcript (messages sent and callbacks made, in order) must be
\* the one of the first delivery (register 3)
TSegRun ==
    /\ More /\ Ev.k = "segrun" /\ pend = <<>>
    /\ IF Ev.first THEN TLCSet(3, Ev.dig) ELSE TLCGet(3) = Ev.dig
    /\ l' = l + 1 /\ UNCHANGED <<vars, pend>>

\* C18: at the end of the run everything retained by the callbacks is intact
TIntact ==
    /\ More /\ Ev.k = "x-intact" /\ pend = <<>> /\ Ev.ok
    /\ l' = l + 1 /\ UNCHANGED <<vars, pend>>

\* C11: the client's TLS stack completed the handshake / gave up
TTls ==
    /\ More /\ Ev.k = "tls" /\ pend = <<>>
    /\ TLSDone
    /\ l' = l + 1 /\ UNCHANGED pend

TTlsFail ==
    /\ More /\ Ev.k = "tlsfail" /\ ssl = "tlsp"
    /\ l' = l + 1 /\ UNCHANGED <<vars, pend>>

\* C11: a raw write of the server after 'S': it must consist of TLS records
TWire ==
    /\ More /\ Ev.k = "wire" /\ ssl \in {"tlsp", "tls"} /\ Ev.rec
    /\ l' = l + 1 /\ UNCHANGED <<vars, pend>>

\* C15: the type maps this connection encoded with: one of its own, shared
\* with no other connection of the server
TMaps ==
    /\ More /\ Ev.k = "x-maps" /\ pend = <<>>
    /\ Cardinality(Range(Ev.own)) <= 1
    /\ Range(Ev.own) \cap Range(Ev.others) = {}
    \* nor any of the tables inside the map (a copied struct that shares its tables is shared state)
    /\ Range(Ev.parts) \cap Range(Ev.otherparts) = {}
    /\ l' = l + 1 /\ UNCHANGED <<vars, pend>>

\* C04: memory allocated while the server dealt with one hostile message stays
\* within a constant factor of the limit, whatever the message declares
\* (bytes: growth of the process's total allocation; sent: bytes really sent)
MaxOf2(a, b) == IF a >= b THEN a ELSE b
TAlloc ==
    /\ More /\ Ev.k = "x-alloc"
    /\ Ev.bytes <= 4 * MaxOf2(Ev.limit, 4096) + 2 * Ev.sent + 4194304
    /\ l' = l + 1 /\ UNCHANGED <<vars, pend>>

\* a silent server step
TServer ==
    /\ pend = <<>>
    /\ ServerStep
    /\ pend' = emit'
    /\ UNCHANGED l

EvMatches(exp, obs) ==
    /\ exp.k = obs.k
    /\ CASE exp.k = "recv" -> RecMatches(exp.m, obs.m)
         [] exp.k = "cb"   -> RecMatches(exp.c, obs.c)
         [] OTHER          -> TRUE

TMatch ==
    /\ More /\ pend # <<>>
    /\ \/ /\ Head(pend).k # "recvset"
          /\ EvMatches(Head(pend), Ev)
          /\ pend' = Tail(pend)
       \/ /\ Head(pend).k = "recvset" /\ Ev.k = "recv"
          /\ \E x \in Head(pend).ms :
                /\ RecMatches(x, Ev.m)
                /\ pend' = IF Cardinality(Head(pend).ms) = 1 THEN Tail(pend)
                           ELSE <<RvSet(Head(pend).ms \ {x})>> \o Tail(pend)
    /\ l' = l + 1 /\ UNCHANGED vars

TIdle ==
    /\ More /\ Ev.k = "idle" /\ pend = <<>>
    /\ ~ENABLED ServerStep
    /\ l' = l + 1 /\ UNCHANGED <<vars, pend>>

\* The transport starts failing: whatever the server still owed is void; from
\* then on it emits nothing, may still run callbacks, and must close.
TFault ==
    /\ More /\ Ev.k = "fault" /\ phase # "closed"
    /\ faulted' = TRUE /\ pend' = <<>> /\ emit' = <<>>
    /\ l' = l + 1
    /\ UNCHANGED <<cfg, phase, ssl, mwi, cparams, inq, eof, stmts, portals, skip, hq, h>>

TFaultedCb ==
    /\ More /\ faulted /\ Ev.k = "cb" /\ phase # "closed"
    /\ l' = l + 1 /\ UNCHANGED <<vars, pend>>

TFaultedClose ==
    /\ More /\ faulted /\ Ev.k = "close" /\ phase # "closed"
    /\ phase' = "closed" /\ emit' = <<>>
    /\ l' = l + 1
    /\ UNCHANGED <<cfg, ssl, mwi, cparams, inq, eof, faulted, stmts, portals, skip, hq, h, pend>>

TNext == TReset \/ TAlloc \/ TMaps \/ TTls \/ TTlsFail \/ TWire \/ TIntact \/ TSegRun \/ TPreamble \/ TGlobal \/ TParseParams \/ TApi \/ TSend \/ TEof \/ TLate \/ TServer \/ TMatch \/ TIdle
         \/ TFault \/ TFaultedCb \/ TFaultedClose

TSpec == TInit /\ [][TNext]_tvars

---------------------------------------------------------------------------
\* high-water mark of l (register 1) and a description of the furthest state
ASSUME TLCSet(1, 0) /\ TLCSet(2, "none") /\ TLCSet(3, "")

HighWater ==
    IF l > TLCGet(1) \/ (l = TLCGet(1) /\ pend # <<>>)
    THEN TLCSet(1, l) /\ TLCSet(2, [phase |-> phase, skip |-> skip, pend |-> pend,
                                     inqlen |-> Len(inq), hon |-> h.on, hq |-> Len(hq), stmts |-> DOMAIN stmts,
                                     portals |-> DOMAIN portals])
    ELSE TRUE

Accepted ==
    IF TLCGet(1) = Len(Trace) + 1 THEN TRUE
    ELSE /\ PrintT(<<"REJECTED at line", TLCGet(1), "of", Len(Trace)>>)
         /\ PrintT(<<"event", Trace[TLCGet(1)]>>)
         /\ PrintT(<<"state", TLCGet(2)>>)
         /\ FALSE

=============================================================================
