---------------------------- MODULE MC_PgReader ----------------------------
(***************************************************************************)
(* Bounded models of buffer.Reader.  (1) every sequence of up to MaxMsgs   *)
(* messages with body sizes around the granule and the limit (scaled:      *)
(* granule G, limit L in Limits), oversized ones being skipped chunk by     *)
(* chunk; (2) every body of up to MaxBody cells and every sequence of up to *)
(* MaxOps accessor calls.  Exported as behaviours for the real Reader.      *)
(***************************************************************************)
EXTENDS PgReader, Export

CONSTANTS G, Limits, MaxMsgs, MaxBody, MaxOps, Part

VARIABLES hist, rem, body, pos, failed
mcvars == <<rvars, hist, rem, body, pos, failed>>

SizesFor(l) == {0, 1, G - 1, G, G + 1, l - 1, l, l + 1, 2 * l + 1, -1}

Init1 == (\E l \in Limits : RInit(G, l)) /\ hist = <<>> /\ rem = 0 /\ body = <<>> /\ pos = 1 /\ failed = FALSE

Next1 ==
    \/ /\ rem = 0 /\ Len(hist) < MaxMsgs
       /\ \E n \in SizesFor(lim) :
             /\ n >= -1
             /\ ReadMsg(n)
             /\ rem' = IF n > lim THEN n ELSE 0
             /\ hist' = Append(hist, [op |-> "msg", size |-> n])
       /\ UNCHANGED <<body, pos, failed>>
    \/ /\ rem > 0
       /\ SlurpChunk(rem)
       /\ rem' = rem - Min(rem, lim)
       /\ UNCHANGED <<hist, body, pos, failed>>

Spec1 == Init1 /\ [][Next1]_mcvars
View1 == <<rvars, rem, Len(hist)>>
Cover1 == (hist' # hist) => ExportRecord([kind |-> "frames", gran |-> gran, lim |-> lim, msgs |-> hist'])

\* ---- part 2: accessors
Bodies == UNION {[1..n -> {"z", "o"}] : n \in 0..MaxBody}
AccOps == {[op |-> "bytes", n |-> k] : k \in 0..3} \cup {[op |-> "u16"], [op |-> "u32"], [op |-> "str"]}

Init2 == RInit(G, 100) /\ hist = <<>> /\ rem = 0 /\ (\E b \in Bodies : body = b) /\ pos = 1 /\ failed = FALSE

Next2 ==
    /\ Len(hist) < MaxOps /\ ~failed
    /\ \E o \in AccOps :
          LET r == Access(body, pos, o) IN
          /\ pos' = r.pos /\ failed' = ~r.ok
          /\ hist' = Append(hist, o)
    /\ UNCHANGED <<rvars, rem, body>>

Spec2 == Init2 /\ [][Next2]_mcvars
View2 == <<body, pos, failed, Len(hist)>>
Cover2 == (hist' # hist) => ExportRecord([kind |-> "access", body |-> body, ops |-> hist'])

\* the cursor never leaves the body
CursorInBody == pos \in 1..(Len(body) + 1)
=============================================================================
