SPECIFICATION Spec2
CONSTANTS
  G = 4
  Limits = {4}
  MaxMsgs = 0
  MaxBody = 5
  MaxOps = 4
  Part = 2
VIEW View2
INVARIANT CursorInBody
ACTION_CONSTRAINT Cover2
POSTCONDITION ExportDone
CHECK_DEADLOCK FALSE
