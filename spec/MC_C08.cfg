SPECIFICATION MCSpec
CONSTANTS
  MaxParams = 2
VIEW View
INVARIANT TypeOK
INVARIANT ParamsReachHandler
INVARIANT TagRule
INVARIANT AnnouncedIsUsed
ACTION_CONSTRAINT Cover
POSTCONDITION ExportDone
CHECK_DEADLOCK FALSE
