------------------------------- MODULE MC_C05 -------------------------------
(***************************************************************************)
(* Bounded model for the simple-query cycle and the result-writer machine. *)
(* Alphabet: a Startup, then simple Queries whose scripts range over every *)
(* parser outcome (blank, error, 0/1/2/3 statements) and every handler     *)
(* program of at most MaxOps result-writer operations followed by a return. *)
(***************************************************************************)
EXTENDS PgConn, Export

CONSTANTS MaxSends,   \* client messages per behaviour (Startup included)
          MaxOps,     \* longest handler program (without the return)
          MaxOpsMulti \* longest program in multi-statement queries

VARIABLES hist,   \* environment steps so far (exported as a behaviour)
          cyc     \* kinds of the messages emitted in the current command cycle

mcvars == <<vars, hist, cyc>>

Cfg0 == [auth |-> "none", tls |-> "nil", params |-> <<>>, version |-> "", mw |-> <<>>,
         term |-> "none", limit |-> 8192]

Err1 == [base |-> "boom", layers |-> <<>>]

\* two columns; row classes
Cols2 == <<[name |-> "c1", oid |-> 25], [name |-> "c2", oid |-> 25]>>
V == [c |-> "v", val |-> "s:x"]
RowOps == { [op |-> "row", cells |-> <<V, V>>],                      \* ok
            [op |-> "row", cells |-> <<V>>],                         \* short
            [op |-> "row", cells |-> <<V, V, V>>],                   \* long
            [op |-> "row", cells |-> <<V, [c |-> "bad"]>>],          \* unencodable
            [op |-> "row", cells |-> <<[c |-> "null", nk |-> "nil"], [c |-> "empty", val |-> "s:"]>>] }
OtherOps == { [op |-> "complete", tag |-> "SELECT 1"], [op |-> "empty"] }
Ops == RowOps \cup OtherOps
Rets == { [op |-> "ret", r |-> "nil"], [op |-> "ret", r |-> "err", err |-> Err1] }

SeqsUpTo(S, n) == UNION {[1..k -> S] : k \in 0..n}
Progs(n) == {p \o <<r>> : p \in SeqsUpTo(Ops, n), r \in Rets}

St(id, cols, prog) == [id |-> id, cols |-> cols, oids |-> <<>>, prog |-> prog]

Scripts ==
    {[id |-> 1, parse |-> "blank", stmts |-> <<>>],
     [id |-> 1, parse |-> "err", perr |-> Err1, stmts |-> <<>>],
     [id |-> 1, parse |-> "ok", stmts |-> <<>>]}
    \cup {[id |-> 1, parse |-> "ok", stmts |-> <<St(1, Cols2, p)>>] : p \in Progs(MaxOps)}
    \cup {[id |-> 1, parse |-> "ok", stmts |-> <<St(1, <<>>, p)>>] : p \in Progs(1)}
    \cup {[id |-> 1, parse |-> "ok", stmts |-> <<St(1, Cols2, p1), St(2, Cols2, p2)>>] :
             p1 \in Progs(MaxOpsMulti), p2 \in Progs(MaxOpsMulti)}
    \cup {[id |-> 1, parse |-> "ok", stmts |-> <<St(1, Cols2, p1), St(2, <<>>, p2), St(3, Cols2, p1)>>] :
             p1 \in Progs(1), p2 \in Progs(0)}

StartupMsg == [t |-> "Startup", term |-> TRUE, kvs |-> <<[k |-> "user", v |-> "u"]>>]

Quiet == inq = <<>> /\ ~ENABLED ServerStep

Kinds(ev) == [i \in DOMAIN ev |-> IF ev[i].k = "recv" THEN ev[i].m.t ELSE "-"]
OnlyRecv(s) == SelectSeq(s, LAMBDA x : x # "-")

MCInit == InitWith(Cfg0) /\ hist = <<>> /\ cyc = <<>>

MCSend ==
    /\ Quiet /\ Len(hist) < MaxSends
    /\ \E m \in IF phase = "startup" THEN {StartupMsg} ELSE {[t |-> "Q", q |-> s] : s \in Scripts} :
          /\ ClientSend(m)
          /\ hist' = Append(hist, [k |-> "send", m |-> m])
    /\ UNCHANGED cyc

MCServer ==
    /\ ServerStep
    /\ cyc' = IF phase # "ready" THEN <<>> ELSE IF Reading("ready") THEN OnlyRecv(Kinds(emit')) ELSE cyc \o OnlyRecv(Kinds(emit'))
    /\ UNCHANGED hist

MCNext == MCSend \/ MCServer
MCSpec == MCInit /\ [][MCNext]_mcvars

View == <<vars, cyc>>

\* every explored client step yields one behaviour: the path to the state plus the step
Cover == (hist' # hist) => ExportRecord([cfg |-> cfg, steps |-> hist'])

---------------------------------------------------------------------------
(* C05 on the model.                                                       *)

CycleOver == phase = "ready" /\ ~h.on /\ hq = <<>> /\ ~ENABLED ServerStep

Count(s, x) == Cardinality({i \in DOMAIN s : s[i] = x})

\* Regular shape of one statement's output: T? D* C?
RECURSIVE StmtsShape(_)
StmtsShape(s) ==
    \/ s = <<>>
    \/ s[1] = "T" /\ StmtsShape(Tail(s))
    \/ s[1] = "D" /\ StmtsShape(Tail(s))
    \/ s[1] = "C" /\ StmtsShape(Tail(s))

\* exactly one ReadyForQuery, last; at most one ErrorResponse, directly before
\* it; EmptyQueryResponse only alone; nothing but T/D/C otherwise
CycleShape ==
    (CycleOver /\ cyc # <<>>) =>
        /\ cyc[Len(cyc)] = "Z"
        /\ Count(cyc, "Z") = 1
        /\ Count(cyc, "E") <= 1
        /\ (Count(cyc, "E") = 1 => cyc[Len(cyc) - 1] = "E")
        /\ (Count(cyc, "I") > 0 => cyc = <<"I", "Z">>)
        /\ StmtsShape(SelectSeq(cyc, LAMBDA x : x \notin {"E", "Z", "I"}))

\* the row counter equals the rows actually delivered by this statement
WrittenIsDelivered ==
    h.on => h.written <= Len(h.st.prog)

\* a result writer that completed stays completed and silent: checked as an
\* action property
ClosedSilent ==
    [][(h.on /\ h.closed /\ h'.on) => (\A i \in DOMAIN emit' : emit'[i].k # "recv")]_mcvars

=============================================================================
