SPECIFICATION MCSpec
CONSTANTS
  MaxAfter = 2
VIEW View
INVARIANT TypeOK
INVARIANT SessionOnlyIfAccepted
INVARIANT NothingBeforeAcceptance
PROPERTY RejectedIsFinal
ACTION_CONSTRAINT Cover
POSTCONDITION ExportDone
CHECK_DEADLOCK FALSE
