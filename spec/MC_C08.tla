------------------------------- MODULE MC_C08 -------------------------------
(***************************************************************************)
(* Bounded model for Bind parameters and format codes: one statement with  *)
(* two result columns (int4, int8); every Bind with 0..MaxParams           *)
(* parameters, each NULL / empty / ordinary / NUL-containing, every         *)
(* admissible list of parameter format codes (none, one, positional) and    *)
(* every admissible list of result format codes; then Describe statement,   *)
(* Describe portal, Execute, Sync.  The statement either declares no        *)
(* parameter types (all text) or declares int4, text, bytea.                *)
(***************************************************************************)
EXTENDS PgConn, Export

CONSTANTS MaxParams

VARIABLES hist, stage
mcvars == <<vars, hist, stage>>

Cfg0 == [auth |-> "none", tls |-> "nil", params |-> <<>>, version |-> "", mw |-> <<>>,
         term |-> "none", limit |-> 65536]

Cols == <<[name |-> "n", oid |-> 23], [name |-> "m", oid |-> 20]>>
Prog == <<[op |-> "row", cells |-> <<[c |-> "v"], [c |-> "v"]>>],
          [op |-> "row", cells |-> <<[c |-> "null", nk |-> "nil"], [c |-> "v", val |-> "s:3"]>>],
          [op |-> "complete", tag |-> "SELECT 2"], [op |-> "ret", r |-> "nil"]>>
\* in the model a written value is a token; the harness substitutes real values
ProgM == <<[op |-> "row", cells |-> <<[c |-> "v", val |-> "s:1"], [c |-> "v", val |-> "s:2"]>>],
           [op |-> "row", cells |-> <<[c |-> "null", nk |-> "nil"], [c |-> "v", val |-> "s:3"]>>],
           [op |-> "complete", tag |-> "SELECT 2"], [op |-> "ret", r |-> "nil"]>>
St(oids) == [id |-> 1, cols |-> Cols, oids |-> oids, prog |-> ProgM]
Script(oids) == [id |-> 1, parse |-> "ok", stmts |-> <<St(oids)>>]

Cell(c) == IF c = "null" THEN [null |-> TRUE] ELSE [null |-> FALSE, cls |-> c, dig |-> c, scan |-> c]
CodeLists(n) == {<<>>, <<0>>, <<1>>} \cup (IF n >= 2 THEN [1..n -> {0, 1}] ELSE {})

BindsOK(classes) ==
    UNION { {[t |-> "B", portal |-> "", stmt |-> "", pfmt |-> pf,
              params |-> [i \in DOMAIN cs |-> Cell(cs[i])], rfmt |-> rf] :
                 pf \in CodeLists(Len(cs)), rf \in CodeLists(2)} :
            cs \in UNION {[1..k -> classes] : k \in 0..MaxParams} }

StartupMsg == [t |-> "Startup", term |-> TRUE, kvs |-> <<[k |-> "user", v |-> "u"]>>]
Quiet == inq = <<>> /\ ~ENABLED ServerStep

MCInit == InitWith(Cfg0) /\ hist = <<>> /\ stage = 0

Next1(m) == /\ ClientSend(m)
            /\ hist' = Append(hist, [k |-> "send", m |-> m])
            /\ (stage < 40 => stage' = stage + 1)

MCSend ==
    /\ Quiet /\ phase # "closed"
    /\ CASE stage = 0 -> Next1(StartupMsg)
         [] stage = 1 -> \E o \in {<<>>, <<23, 25, 17>>} : Next1([t |-> "P", name |-> "", q |-> Script(o), noids |-> 0])
         [] stage = 2 -> Next1([t |-> "D", kind |-> "S", name |-> ""])
         [] stage = 3 -> \E b \in (IF stmts[""].oids = <<>> THEN BindsOK({"null", "empty", "short", "nul"})
                                   ELSE BindsOK({"null", "short"})) :
                            /\ Next1(b)
         [] stage = 4 -> \* optionally a second portal on the same statement, bound AFTER the first one with
                         \* other result formats: both stay alive, each keeps what its own Bind said
                         \/ Next1([t |-> "D", kind |-> "P", name |-> ""])
                         \/ \E rf \in {<<>>, <<1>>, <<1, 0>>} :
                               /\ ClientSend([t |-> "B", portal |-> "o", stmt |-> "", pfmt |-> <<>>, params |-> <<>>, rfmt |-> rf])
                               /\ hist' = Append(hist, [k |-> "send", m |-> [t |-> "B", portal |-> "o", stmt |-> "", pfmt |-> <<>>, params |-> <<>>, rfmt |-> rf]])
                               /\ stage' = 40
         [] stage = 40 -> Next1([t |-> "D", kind |-> "P", name |-> ""]) /\ stage' = 41
         [] stage = 41 -> Next1([t |-> "E", portal |-> "", max |-> 0]) /\ stage' = 42
         [] stage = 42 -> Next1([t |-> "D", kind |-> "P", name |-> "o"]) /\ stage' = 43
         [] stage = 43 -> Next1([t |-> "E", portal |-> "o", max |-> 0]) /\ stage' = 6
         [] stage = 5 -> Next1([t |-> "E", portal |-> "", max |-> 0])
         [] stage = 6 -> \/ Next1([t |-> "S"])
                         \/ \* the same portal executed once more: it still carries the parameters of its Bind
                            /\ ClientSend([t |-> "E", portal |-> "", max |-> 0])
                            /\ hist' = Append(hist, [k |-> "send", m |-> [t |-> "E", portal |-> "", max |-> 0]])
                            /\ stage' = 60
         [] stage = 60 -> /\ ClientSend([t |-> "S"])
                          /\ hist' = Append(hist, [k |-> "send", m |-> [t |-> "S"]])
                          /\ stage' = 7
         [] OTHER -> FALSE

MCServer == ServerStep /\ UNCHANGED <<hist, stage>>
MCNext == MCSend \/ MCServer
MCSpec == MCInit /\ [][MCNext]_mcvars

View == <<vars, stage>>
\* one behaviour per complete conversation
Cover == (hist' # hist /\ stage' = 7) => ExportRecord([cfg |-> cfg, steps |-> hist'])

---------------------------------------------------------------------------
(* C08 on the model.                                                       *)

\* the statement function receives exactly the parameters of the portal's Bind
ParamsReachHandler ==
    \A i \in DOMAIN emit :
        (emit[i].k = "cb" /\ emit[i].c.name = "stmt.start" /\ h.on /\ h.mode = "ext") =>
            /\ emit[i].c.params = h.params
            /\ \E p \in DOMAIN portals : portals[p].params = h.params /\ portals[p].rfmt = h.rfmt

\* every parameter is tagged by the protocol rule
TagRule ==
    "" \in DOMAIN portals =>
        \A i \in DOMAIN portals[""].params : portals[""].params[i].fmt \in {0, 1}

\* the announced result formats are those used in the DataRows
AnnouncedIsUsed ==
    \A i \in DOMAIN emit :
        (emit[i].k = "recv" /\ emit[i].m.t = "D" /\ h.on) =>
            \A j \in DOMAIN emit[i].m.cells :
                ~emit[i].m.cells[j].null => emit[i].m.cells[j].enc = FormatOf(h.rfmt, j)

=============================================================================
