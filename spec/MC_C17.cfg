SPECIFICATION MCSpec
CONSTANTS
  MaxLayers = 2
VIEW View
INVARIANT TypeOK
INVARIANT Mandatory
INVARIANT OutermostWins
ACTION_CONSTRAINT Cover
POSTCONDITION ExportDone
CHECK_DEADLOCK FALSE
