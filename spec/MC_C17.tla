------------------------------- MODULE MC_C17 -------------------------------
(***************************************************************************)
(* Bounded model for error decorations: a statement function (and a        *)
(* parser) returning an error built from a base error and every nesting of *)
(* up to MaxLayers decorators (code, severity, hint, detail, source,       *)
(* constraint) and fmt-style wraps, outermost first.                        *)
(***************************************************************************)
EXTENDS PgConn, Export

CONSTANTS MaxLayers

VARIABLES hist
mcvars == <<vars, hist>>

Cfg0 == [auth |-> "none", tls |-> "nil", params |-> <<>>, version |-> "", mw |-> <<>>,
         term |-> "none", limit |-> 65536]

LayerVals ==
    {[d |-> "code", v |-> "22012"], [d |-> "code", v |-> "XX001"],
     [d |-> "sev", v |-> "WARNING"], [d |-> "sev", v |-> "FATAL"],
     [d |-> "hint", v |-> "h1"], [d |-> "hint", v |-> "h2"],
     [d |-> "detail", v |-> "d1"], [d |-> "cons", v |-> "k1"],
     [d |-> "wrap", v |-> "w1"], [d |-> "wrap", v |-> "w2"],
     [d |-> "src", file |-> "f.go", line |-> "42", fn |-> "fn1"],
     [d |-> "src", file |-> "g.go", line |-> "7", fn |-> "fn2"]}

Errs == {[base |-> "boom", layers |-> ls] : ls \in UNION {[1..k -> LayerVals] : k \in 0..MaxLayers}}

StQ(e) == [id |-> 1, parse |-> "ok", stmts |-> <<[id |-> 1, cols |-> <<>>, oids |-> <<>>,
                                                 prog |-> <<[op |-> "ret", r |-> "err", err |-> e]>>]>>]
PQ(e) == [id |-> 2, parse |-> "err", perr |-> e, stmts |-> <<>>]

StartupMsg == [t |-> "Startup", term |-> TRUE, kvs |-> <<[k |-> "user", v |-> "u"]>>]
Quiet == inq = <<>> /\ ~ENABLED ServerStep

MCInit == InitWith(Cfg0) /\ hist = <<>>

MCSend ==
    /\ Quiet /\ Len(hist) < 2 /\ phase # "closed"
    /\ \E m \in IF phase = "startup" THEN {StartupMsg}
                ELSE {[t |-> "Q", q |-> StQ(e)] : e \in Errs} \cup {[t |-> "Q", q |-> PQ(e)] : e \in Errs} :
          /\ ClientSend(m)
          /\ hist' = Append(hist, [k |-> "send", m |-> m])

MCServer == ServerStep /\ UNCHANGED hist
MCNext == MCSend \/ MCServer
MCSpec == MCInit /\ [][MCNext]_mcvars
View == vars
Cover == (hist' # hist) => ExportRecord([cfg |-> cfg, steps |-> hist'])

---------------------------------------------------------------------------
(* C17 on the model: the flattening rules themselves.                      *)

ErrMsgs == {emit[i].m : i \in {j \in DOMAIN emit : emit[j].k = "recv" /\ emit[j].m.t = "E"}}

\* defaults: severity ERROR, SQLSTATE uncategorised; every ErrorResponse the
\* model emits for a decorated error carries all mandatory fields
Mandatory ==
    \A e \in ErrMsgs : ("sev" \in DOMAIN e) => (e.sev # "" /\ e.code # "" /\ e.wf /\ ~e.dup)

\* outermost wins, for each decoration independently
OutermostWins ==
    \A e \in Errs :
        LET r == ErrRec(e) IN
        /\ \A i \in DOMAIN e.layers :
              (e.layers[i].d = "hint" /\ \A j \in 1..(i-1) : e.layers[j].d # "hint") => r.hint = e.layers[i].v
        /\ (\A i \in DOMAIN e.layers : e.layers[i].d # "sev") => r.sev = "ERROR"
        /\ (\A i \in DOMAIN e.layers : e.layers[i].d # "code") => r.code = "XXUUU"
        /\ (\A i \in DOMAIN e.layers : e.layers[i].d # "src") => (r.file = "" /\ r.line = "" /\ r.fn = "")
        /\ (\A i \in DOMAIN e.layers : e.layers[i].d # "cons") => r.cons = ""

=============================================================================
