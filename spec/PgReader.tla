------------------------------ MODULE PgReader ------------------------------
(***************************************************************************)
(* buffer.Reader (pkg/buffer/reader.go): framing of the client's byte      *)
(* stream into messages, the size limit, skipping of oversized messages in *)
(* chunks, the allocation window in which message bodies are placed, and    *)
(* the accessor cursor (GetBytes / GetUint16 / GetUint32 / GetString).      *)
(*                                                                         *)
(* Part 1 - framing and allocation.  A message body of n bytes is placed by *)
(* reset(n): if the spare capacity behind the previous body is at least n   *)
(* the window advances into it, otherwise a fresh allocation of             *)
(* max(n, gran) bytes is made.  Bodies already handed out (views) are never *)
(* written again: every window is disjoint from all earlier windows.  A     *)
(* body larger than the limit is never placed: it is skipped in chunks of   *)
(* at most lim bytes.                                                       *)
(***************************************************************************)
EXTENDS Integers, Sequences, FiniteSets, TLC

VARIABLES gran,     \* allocation granule (4096 in the code)
          lim,      \* message limit L
          alloc,    \* id of the current allocation (0 = none yet)
          acap,     \* its size
          aoff,     \* offset of the end of the current window in it
          wlen,     \* length of the current window (body)
          views,    \* windows handed out so far: set of [a, lo, hi]  (half-open)
          res       \* outcome of the last operation

rvars == <<gran, lim, alloc, acap, aoff, wlen, views, res>>

RInit(g, l) ==
    /\ gran = g /\ lim = l /\ alloc = 0 /\ acap = 0 /\ aoff = 0 /\ wlen = 0 /\ views = {} /\ res = [op |-> "-"]

Max(a, b) == IF a >= b THEN a ELSE b
Min(a, b) == IF a <= b THEN a ELSE b

\* reset(n): the window that will receive n bytes.  keep: the body is handed
\* out (a view someone may retain); otherwise it is dropped at once (Slurp).
Place(n, keep) ==
    IF acap - aoff >= n          \* (also: nothing allocated yet and nothing needed)
    THEN /\ aoff' = aoff + n /\ wlen' = n /\ UNCHANGED <<alloc, acap>>
         /\ views' = IF keep THEN views \cup {[a |-> alloc, lo |-> aoff, hi |-> aoff + n]} ELSE views
    ELSE /\ alloc' = alloc + 1 /\ acap' = Max(n, gran) /\ aoff' = n /\ wlen' = n
         /\ views' = IF keep THEN views \cup {[a |-> alloc + 1, lo |-> 0, hi |-> n]} ELSE views

\* what the harness can observe of the window: its capacity (spare included)
\* and whether it lies in the same allocation as the previous one
CapNow == acap - (aoff - wlen)

\* ReadTypedMsg / ReadUntypedMsg of a message declaring a body of n bytes
\* (n < 0: a declared length below 4)
ReadMsg(n) ==
    IF n < 0 \/ n > lim
    THEN /\ res' = [op |-> "read", ret |-> "exceeded", size |-> n]
         /\ UNCHANGED <<gran, lim, alloc, acap, aoff, wlen, views>>
    ELSE /\ Place(n, TRUE)
         /\ res' = [op |-> "read", ret |-> "ok", size |-> n, cap |-> CapNow', fresh |-> (alloc' # alloc)]
         /\ UNCHANGED <<gran, lim>>

\* Slurp(n) one chunk at a time: min(remaining, lim) bytes are placed and dropped
SlurpChunk(rem) ==
    /\ rem > 0
    /\ Place(Min(rem, lim), FALSE)
    /\ res' = [op |-> "slurp", size |-> Min(rem, lim), cap |-> CapNow', fresh |-> (alloc' # alloc)]
    /\ UNCHANGED <<gran, lim>>

\* C18: the window being written never overlaps a body handed out earlier
\* (this covers the chunks of a skipped message too), and bodies handed out
\* never overlap each other
NoOverwrite ==
    /\ \A v \in views : v.a = alloc => (v.hi <= aoff - wlen \/ (v.lo = aoff - wlen /\ v.hi = aoff))
    /\ \A v1, v2 \in views : (v1 # v2 /\ v1.a = v2.a) => (v1.hi <= v2.lo \/ v2.hi <= v1.lo)

\* C10: no window ever exceeds the limit, no allocation exceeds max(lim, gran)
NeverBuffersOversize ==
    /\ \A v \in views : v.hi - v.lo <= lim
    /\ acap <= Max(lim, gran)

(***************************************************************************)
(* Part 2 - the accessor cursor over one message body.  A body is a        *)
(* sequence of cells "z" (a NUL byte) or "o" (any other byte).  Every      *)
(* accessor either returns exactly the next cells and advances, or fails   *)
(* and never reads beyond the body.                                        *)
(***************************************************************************)
FirstNul(body, pos) ==
    LET S == {i \in pos..Len(body) : body[i] = "z"} IN
    IF S = {} THEN 0 ELSE CHOOSE i \in S : \A j \in S : i <= j

\* result of an accessor at cursor pos (1-based index of the next unread cell)
Access(body, pos, op) ==
    LET left == Len(body) - pos + 1 IN
    CASE op.op = "bytes" -> IF op.n <= left THEN [ok |-> TRUE, n |-> op.n, pos |-> pos + op.n]
                             ELSE [ok |-> FALSE, n |-> 0, pos |-> pos]
      [] op.op = "u16"   -> IF 2 <= left THEN [ok |-> TRUE, n |-> 2, pos |-> pos + 2] ELSE [ok |-> FALSE, n |-> 0, pos |-> pos]
      [] op.op = "u32"   -> IF 4 <= left THEN [ok |-> TRUE, n |-> 4, pos |-> pos + 4] ELSE [ok |-> FALSE, n |-> 0, pos |-> pos]
      [] op.op = "str"   -> LET z == FirstNul(body, pos) IN
                            IF z = 0 THEN [ok |-> FALSE, n |-> 0, pos |-> pos]
                            ELSE [ok |-> TRUE, n |-> z - pos, pos |-> z + 1]

=============================================================================
