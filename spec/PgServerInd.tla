---------------------------- MODULE PgServerInd ----------------------------
(***************************************************************************)
(* Inductive invariant of the repaired server lifecycle design (PgServer,   *)
(* Variant = "repaired"), discharged with Apalache for a fixed but larger   *)
(* population than TLC explores:                                            *)
(*   Init => IndInv                       (length 0 from SInit)             *)
(*   IndInv /\ SNext => IndInv'           (length 1 from IndInit)           *)
(*   IndInv => NoPanic /\ CounterOK /\ Graceful /\ ServeOK                  *)
(*   IndInv /\ SNext => NoStartAfterReturnStep   (action invariant)         *)
(***************************************************************************)
EXTENDS PgServer

ConstInit == Closers = {"k1", "k2", "k3", "k4"} /\ Conns = {"c1", "c2", "c3", "c4"} /\ Variant = "repaired"
\* negative control: the pinned design must fail the same obligations
ConstInitPinned == Closers = {"k1", "k2"} /\ Conns = {"c1"} /\ Variant = "pinned"

KStates == {"off", "enter", "locked", "decided", "waiting", "inwait", "return", "done"}
CStates == {"idle", "midread", "admit", "locked", "added", "admitted", "refused", "handler", "donep"}

Running == {c \in Conns : cpc[c] \in {"added", "admitted", "handler"}}
PastDecision == {"decided", "waiting", "inwait", "return", "done"}

IndInv ==
    /\ closing \in BOOLEAN /\ lclosed \in BOOLEAN /\ cgDone \in BOOLEAN /\ returned \in BOOLEAN
    /\ chanClosed \in 0..1 /\ wg \in 0..(Cardinality(Conns) + 1)
    /\ served \in {"running", "nil"}
    /\ mu \in {"free"} \cup Closers \cup Conns
    /\ kpc \in [Closers -> KStates] /\ cpc \in [Conns -> CStates]
    /\ saw \in [Closers \cup Conns -> BOOLEAN]
    \* the flag and the channel change together, under the mutex
    /\ closing <=> chanClosed = 1
    \* who holds the mutex
    /\ \A k \in Closers : mu = k <=> kpc[k] \in {"locked", "decided"}
    /\ \A c \in Conns : mu = c <=> cpc[c] \in {"locked", "added"}
    \* what a holder read is still true
    /\ \A c \in Conns : cpc[c] = "locked" => saw[c] = closing
    /\ \A k \in Closers : kpc[k] = "locked" => saw[k] = closing
    \* a caller past its decision has set (or found) the flag
    /\ \A k \in Closers : kpc[k] \in PastDecision => closing
    \* the WaitGroup counts the closer goroutine and the commands in flight
    /\ wg = (IF cgDone THEN 0 ELSE 1) + Cardinality(Running)
    /\ cgDone => chanClosed = 1
    /\ lclosed <=> cgDone
    /\ served = "nil" => lclosed
    \* Close returns only when nothing is in flight, and nothing starts afterwards
    /\ returned <=> \E k \in Closers : kpc[k] \in {"return", "done"}
    /\ returned => (Running = {} /\ cgDone)

IndInit == IndInv

Safety == NoPanic /\ CounterOK /\ Graceful /\ ServeOK

\* once a Close has returned, no handler begins (as a property of single steps)
NoStartAfterReturnStep == returned => \A c \in Conns : cpc'[c] = "handler" => cpc[c] = "handler"

Next == SNext

\* non-vacuity probes: each must be VIOLATED
ProbeNoReturn == ~returned
ProbeNoHandler == \A c \in Conns : cpc[c] # "handler"
ProbeStepFreezes == cpc' = cpc /\ kpc' = kpc
=============================================================================
