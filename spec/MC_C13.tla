------------------------------- MODULE MC_C13 -------------------------------
(***************************************************************************)
(* Bounded model for COPY-in: a statement starts COPY-in (1 or 2 columns,  *)
(* text or binary) and reads; the client sends every sequence of up to     *)
(* MaxCopy messages over CopyData / CopyDone / CopyFail / Flush / Sync /    *)
(* a simple Query / an unknown message; the handler reads to the end        *)
(* (propagating a read error), or stops after one chunk and completes, or   *)
(* stops after one chunk and fails.  COPY messages sent afterwards, outside *)
(* COPY mode, must be ignored.                                              *)
(***************************************************************************)
EXTENDS PgConn, Export

CONSTANTS MaxCopy

VARIABLES hist
mcvars == <<vars, hist>>

Cfg0 == [auth |-> "none", tls |-> "nil", params |-> <<>>, version |-> "", mw |-> <<>>,
         term |-> "none", limit |-> 65536]

Err1 == [base |-> "boom", layers |-> <<>>]
Cols(n) == [i \in 1..n |-> [name |-> "c" \o ToString(i), oid |-> 25]]
Read == [op |-> "copyread", onerr |-> "ret"]
Done == [op |-> "complete", tag |-> "COPY"]
RetNil == [op |-> "ret", r |-> "nil"]
RetErr == [op |-> "ret", r |-> "err", err |-> Err1]
Progs(f) == { <<[op |-> "copyin", fmt |-> f]>> \o [i \in 1..(MaxCopy + 1) |-> Read] \o <<Done, RetNil>>,
              <<[op |-> "copyin", fmt |-> f], Read, Done, RetNil>>,
              <<[op |-> "copyin", fmt |-> f], Read, RetErr>> }
Scripts == {[id |-> 1, parse |-> "ok", stmts |-> <<[id |-> 1, cols |-> Cols(n), oids |-> <<>>, prog |-> p]>>] :
               n \in {1, 2}, p \in Progs(0) \cup Progs(1)}
           \cup {[id |-> 1, parse |-> "ok", stmts |-> <<[id |-> 1, cols |-> <<>>, oids |-> <<>>,
                                                        prog |-> <<[op |-> "copyin", fmt |-> 0], Read, Done, RetNil>>]>>]}
OtherQ == [id |-> 2, parse |-> "ok", stmts |-> <<[id |-> 2, cols |-> <<>>, oids |-> <<>>, prog |-> <<Done, RetNil>>]>>]

CopyAlphabet == {[t |-> "d", dig |-> "s:k1"], [t |-> "d", dig |-> "s:k2"], [t |-> "c"], [t |-> "f"], [t |-> "H"], [t |-> "S"],
                 [t |-> "Q", q |-> OtherQ], [t |-> "U"], [t |-> "X"], [t |-> "Big", ty |-> "d", over |-> "1"], [t |-> "C", kind |-> "P", name |-> ""],
                 [t |-> "P", name |-> "", q |-> OtherQ, noids |-> 0], [t |-> "E", portal |-> "", max |-> 0]}

StartupMsg == [t |-> "Startup", term |-> TRUE, kvs |-> <<[k |-> "user", v |-> "u"]>>]
Quiet == inq = <<>> /\ ~ENABLED ServerStep

MCInit == InitWith(Cfg0) /\ hist = <<>>

MCSend ==
    /\ Quiet /\ phase # "closed" /\ Len(hist) < MaxCopy + 2
    /\ \E m \in (IF phase = "startup" THEN {StartupMsg}
                 ELSE IF Len(hist) = 1 THEN {[t |-> "Q", q |-> s] : s \in Scripts}
                 ELSE CopyAlphabet) :
          /\ ClientSend(m)
          /\ hist' = Append(hist, [k |-> "send", m |-> m])

MCServer == ServerStep /\ UNCHANGED hist
MCNext == MCSend \/ MCServer
MCSpec == MCInit /\ [][MCNext]_mcvars
View == vars
Cover == (hist' # hist) => ExportRecord([cfg |-> cfg, steps |-> hist'])

---------------------------------------------------------------------------
(* C13 on the model.                                                       *)

RecvT(ev, t) == {i \in DOMAIN ev : ev[i].k = "recv" /\ ev[i].m.t = t}

\* an aborted or failed COPY: exactly one ErrorResponse and one ReadyForQuery
AbortReportedOnce ==
    [][(h.on /\ ~h'.on /\ h.mode = "simple" /\ Cardinality(RecvT(emit', "E")) > 0) =>
          (Cardinality(RecvT(emit', "E")) = 1 /\ Cardinality(RecvT(emit', "Z")) = 1)]_mcvars

\* COPY messages outside COPY mode never produce a reply
StrayIgnored ==
    [][(Reading("ready") /\ ~skip /\ Head1.t \in {"d", "c", "f"}) => emit' = <<>>]_mcvars

\* a read never reports to the client by itself
ReadIsSilent ==
    [][(h.on /\ h'.on /\ h.copy) => RecvT(emit', "E") = {}]_mcvars

=============================================================================
