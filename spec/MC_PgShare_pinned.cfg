SPECIFICATION ShSpec
CONSTANTS
  Conns = {"c1", "c2", "c3"}
  Variant = "pinned"
  MaxRows = 2
INVARIANT NoConcurrentMapAccess
INVARIANT GlobalMapReadOnly
CHECK_DEADLOCK FALSE
