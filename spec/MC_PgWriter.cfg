SPECIFICATION MCSpec
CONSTANTS
  MaxOps = 5
  MaxFail = 2
VIEW View
INVARIANT SinkWellFormed
PROPERTY StartIsFresh
ACTION_CONSTRAINT Cover
POSTCONDITION ExportDone
CHECK_DEADLOCK FALSE
