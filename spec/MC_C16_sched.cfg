SPECIFICATION MCSpec
CONSTANTS
  Closers = {"k1", "k2"}
  Conns = {"c1"}
  Variant = "sched"
  MaxCmds = 1
VIEW View
ACTION_CONSTRAINT Cover
POSTCONDITION ExportDone
CHECK_DEADLOCK FALSE
