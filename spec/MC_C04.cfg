SPECIFICATION MCSpec
CONSTANTS
  MaxSends = 4
VIEW View
INVARIANT TypeOK
INVARIANT EndsWhenInputEnds
PROPERTY HostileNeverReachesCallbacks
ACTION_CONSTRAINT Cover
POSTCONDITION ExportDone
CHECK_DEADLOCK FALSE
