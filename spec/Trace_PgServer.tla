--------------------------- MODULE Trace_PgServer ---------------------------
(***************************************************************************)
(* Trace validation of the server lifecycle.  Real goroutines are parked at *)
(* the hook points; the harness RELEASES them one at a time ("rel" events,  *)
(* logged before the release), and their ARRIVALS at the next point are     *)
(* logged by the hook itself ("hook" events), all under one mutex, in the   *)
(* order in which they really happen.  Between its release and its arrival  *)
(* a goroutine performs the effect of the corresponding PgServer action     *)
(* (possibly blocking on the mutex or the WaitGroup first): that step is     *)
(* silent and TLC infers its position.  A goroutine that was not released    *)
(* cannot be assumed to have moved.                                          *)
(***************************************************************************)
EXTENDS PgServer, Json

Trace == ndJsonDeserialize("trace.ndjson")

VARIABLES l,
          st    \* actor -> "parked" | "released" | "flying"
tvars == <<svars, l, st>>

Ev == Trace[l]
More == l <= Len(Trace)

TInit == Trace[1].k = "cfg" /\ SInit /\ l = 2 /\ st = [a \in Actors |-> "parked"]

TReset ==
    /\ More /\ Ev.k = "cfg"
    /\ closing' = FALSE /\ chanClosed' = 0 /\ mu' = "free" /\ wg' = 1
    /\ lclosed' = FALSE /\ cgDone' = FALSE /\ served' = "running"
    /\ kpc' = [k \in Closers |-> "off"] /\ cpc' = [c \in Conns |-> "idle"]
    /\ saw' = [a \in Actors |-> FALSE] /\ returned' = FALSE
    /\ st' = [a \in Actors |-> "parked"]
    /\ l' = l + 1

\* the harness releases a parked goroutine / starts a Close call / delivers input
TRelease ==
    /\ More /\ Ev.k = "rel" /\ st[Ev.a] = "parked"
    /\ st' = [st EXCEPT ![Ev.a] = "released"]
    /\ IF Ev.a \in Closers /\ kpc[Ev.a] = "waiting"
       THEN KWaitBegin(Ev.a)            \* the goroutine enters WaitGroup.Wait
       ELSE UNCHANGED svars
    /\ l' = l + 1

\* the effect of the step a released goroutine is making (silent)
TEffect ==
    /\ \E a \in Actors :
          /\ st[a] = "released"
          /\ st' = [st EXCEPT ![a] = "flying"]
          /\ IF a \in Closers
             THEN KStart(a) \/ KLock(a) \/ KDecide(a) \/ KUnlock(a) \/ KWaitEnd(a) \/ KReturn(a)
             ELSE Deliver(a) \/ CLock(a) \/ CDecide(a) \/ CEnter(a) \/ CStart(a) \/ CFinish(a) \/ CLoop(a)
    /\ UNCHANGED l

PointOf(a) ==
    IF a \in Closers
    THEN CASE kpc[a] = "enter" -> "close.enter" [] kpc[a] = "locked" -> "close.locked"
           [] kpc[a] = "decided" -> "close.decided" [] kpc[a] = "waiting" -> "close.waiting"
           [] kpc[a] = "return" -> "close.return" [] OTHER -> "-"
    ELSE CASE cpc[a] = "admit" -> "cmd.admit" [] cpc[a] = "locked" -> "cmd.locked"
           [] cpc[a] = "added" -> "cmd.added" [] cpc[a] = "refused" -> "cmd.refused" [] cpc[a] = "admitted" -> "cmd.admitted"
           [] cpc[a] = "handler" -> "h.enter" [] cpc[a] = "donep" -> "cmd.done" [] OTHER -> "-"

\* the goroutine arrives at its next hook point
TArrive ==
    /\ More /\ Ev.k = "hook" /\ st[Ev.a] = "flying"
    /\ PointOf(Ev.a) = Ev.p
    /\ st' = [st EXCEPT ![Ev.a] = "parked"]
    /\ l' = l + 1 /\ UNCHANGED svars

\* Close returned to its caller
TRet ==
    /\ More /\ Ev.k = "ret" /\ st[Ev.a] = "flying" /\ kpc[Ev.a] = "done"
    /\ st' = [st EXCEPT ![Ev.a] = "parked"]
    /\ l' = l + 1 /\ UNCHANGED svars

\* part of a message is delivered: the connection waits in the middle of it
TPart ==
    /\ More /\ Ev.k = "env" /\ Ev.act = "part" /\ st[Ev.a] = "parked"
    /\ DeliverPart(Ev.a)
    /\ l' = l + 1 /\ UNCHANGED st

\* a connection blocked reading: the arrival of CLoop, or - no step of the
\* model - while it waits in the middle of a message
TIdle ==
    /\ More /\ Ev.k = "idle"
    /\ \/ st[Ev.a] = "flying" /\ cpc[Ev.a] = "idle" /\ st' = [st EXCEPT ![Ev.a] = "parked"]
       \/ st[Ev.a] = "parked" /\ cpc[Ev.a] \in {"idle", "midread"} /\ UNCHANGED st
    /\ l' = l + 1 /\ UNCHANGED svars

TListenerClosed == More /\ Ev.k = "lclosed" /\ CloserGo /\ l' = l + 1 /\ UNCHANGED st
TServed == More /\ Ev.k = "served" /\ Ev.err = "nil" /\ ServeReturn /\ l' = l + 1 /\ UNCHANGED st

\* end of a schedule, after everything was released: every Close call has
\* returned and Serve has returned nil (observed by the harness)
\* (late: Close is final - a Serve call made after Close had returned came back with nil at once, and a command sent
\* after that on a connection still open started no parser and no statement function)
\* ... and what every connection received, with Close calls going on around its commands, is a sequence of whole,
\* well-formed backend messages (the writer of a connection is used by its own goroutine only)
TFinal == More /\ Ev.k = "final" /\ Ev.allret /\ Ev.served /\ Ev.wire /\ Ev.late /\ l' = l + 1 /\ UNCHANGED <<svars, st>>

\* no action for: panic, stuck, served with an error, an arrival at a point
\* the model does not expect
TNext == TReset \/ TRelease \/ TEffect \/ TArrive \/ TRet \/ TPart \/ TIdle
         \/ TListenerClosed \/ TServed \/ TFinal
TSpec == TInit /\ [][TNext]_tvars

ASSUME TLCSet(1, 0) /\ TLCSet(2, "none")
HighWater ==
    IF l > TLCGet(1)
    THEN TLCSet(1, l) /\ TLCSet(2, [kpc |-> kpc, cpc |-> cpc, closing |-> closing, wg |-> wg, mu |-> mu, st |-> st,
                                     chanClosed |-> chanClosed, lclosed |-> lclosed, returned |-> returned])
    ELSE TRUE
Accepted ==
    IF TLCGet(1) = Len(Trace) + 1 THEN TRUE
    ELSE /\ PrintT(<<"REJECTED at line", TLCGet(1), "of", Len(Trace)>>)
         /\ PrintT(<<"event", Trace[TLCGet(1)]>>)
         /\ PrintT(<<"state", TLCGet(2)>>)
         /\ FALSE

TNoStartAfterReturn ==
    [][returned => \A c \in Conns : cpc'[c] = "handler" => cpc[c] = "handler"]_tvars
=============================================================================
