SPECIFICATION TSpec
CONSTRAINT HighWater
POSTCONDITION Accepted
INVARIANT NoOverwrite
INVARIANT NeverBuffersOversize
CHECK_DEADLOCK FALSE
